#!/bin/sh
# Loads the contract files of every package named in props/*.json together with the
# shared spec files: a duplicate contract (two files giving a contract to the same
# function) only shows when both packages are loaded by one property.
set -e
PK=$(python3 - <<'PY'
import json,glob
s=set()
for f in glob.glob('/verif/props/C*.json'):
    s|=set(json.load(open(f))['packages'])
print(",".join(sorted(s)))
PY
)
cd /verif
out=$(bin/govc dev -pkgs "$PK" -specs contracts/external/apd.spec,contracts/external/std.spec -func zzz-none 2>&1 | tail -2)
echo "$out"
echo "$out" | grep -q "^loaded in" || { echo "LINT FAILED"; exit 1; }
