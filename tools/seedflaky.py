#!/usr/bin/env python3
"""For seeded changes whose only suite failures are the two timing-sensitive
script tests (TestScript/cmd_serve, TestScript/cmd_concurrent: 'connection
refused' after a fixed sleep when the machine is loaded), re-runs those tests
alone on HEAD+patch, up to three times, and records the outcome in meta.json."""
import json, glob, os, subprocess, sys
ENV = dict(os.environ, GOFLAGS="-mod=mod", GOPROXY="off")
FLAKY = {"TestScript/cmd_serve", "TestScript/cmd_concurrent"}
def sh(cmd, cwd=None, timeout=1800):
    p = subprocess.run(cmd, shell=True, cwd=cwd, env=ENV, stdout=subprocess.PIPE, stderr=subprocess.STDOUT, text=True, timeout=timeout)
    return p.returncode, p.stdout
for d in sorted(glob.glob("/verif/seeded/*/")):
    name = os.path.basename(d.rstrip("/"))
    if sys.argv[1:] and name not in sys.argv[1:]:
        continue
    meta = json.load(open(d + "meta.json"))
    cb = meta.get("confirmed_by_us", {})
    fails = set(cb.get("existing_tests_failures_with_patch") or [])
    if cb.get("existing_tests_pass_with_patch") or not fails or not fails <= FLAKY:
        continue
    wt = f"/tmp/wt/flaky_{name}"
    sh(f"git -C /repo worktree remove --force {wt}")
    sh(f"git -C /repo worktree add --detach {wt} HEAD")
    try:
        rc, out = sh(f"git apply {d}patch.diff", cwd=wt)
        ok = False
        for i in range(3):
            rc, out = sh("go test -vet=off -count=1 ./cmd/cue/cmd -run 'TestScript/(cmd_serve|cmd_concurrent)$' 2>&1 | tail -3", cwd=wt)
            if out.strip().startswith("ok") or "\nok" in out:
                ok = True
                break
        cb["flaky_rerun_alone"] = f"{'passed' if ok else 'failed'} (attempts: {i+1}) — {sorted(fails)} re-run alone on HEAD+patch"
        if ok:
            cb["existing_tests_pass_with_patch"] = True
            cb["existing_tests_failures_with_patch"] = []
        json.dump(meta, open(d + "meta.json", "w"), indent=1)
        print(name, cb["flaky_rerun_alone"], flush=True)
    finally:
        sh(f"git -C /repo worktree remove --force {wt}")
        sh("git -C /repo worktree prune")
