#!/usr/bin/env python3
"""Confirms a seeded change (patch + demonstration) in a scratch worktree of
/repo's HEAD, stores it under /verif/seeded/<id>-<m>/ and runs the property's
check against /repo with the patch applied (reverted straight afterwards).

usage: seedeval.py <seed dir> [<seed dir> ...]      e.g. /tmp/seed/C14/m1
"""
import json, os, re, shutil, subprocess, sys, time

ENV = dict(os.environ, GOFLAGS="-mod=mod", GOPROXY="off")

def sh(cmd, cwd=None, timeout=1800):
    p = subprocess.run(cmd, shell=True, cwd=cwd, env=ENV, stdout=subprocess.PIPE, stderr=subprocess.STDOUT, text=True, timeout=timeout)
    return p.returncode, p.stdout

def main(seed):
    seed = seed.rstrip("/")
    meta = json.load(open(os.path.join(seed, "meta.json")))
    pid = meta.get("property") or os.path.basename(os.path.dirname(seed))
    mname = os.path.basename(seed)
    demo_txt = open(os.path.join(seed, "demo.txt")).read()
    demo_files = [f for f in os.listdir(seed) if f.endswith("_test.go")]
    nested = []
    for root, _, files in os.walk(seed):
        for f in files:
            if f.endswith("_test.go") and root != seed:
                nested.append(os.path.relpath(os.path.join(root, f), seed))
    # placement directory and test command
    m = re.search(r"([\w./<>-]*?)/?(zz_seed_demo_test\.go)", demo_txt.replace("<repo>/", "").replace("<repo root>/", ""))
    place = None
    for cand in re.findall(r"([\w./-]+)/zz_seed_demo_test\.go", demo_txt.replace("<repo>/", "")):
        if not cand.startswith("/tmp") and not cand.startswith("/"):
            place = cand
            break
    cmds = []
    for line in demo_txt.splitlines():
        line = line.strip()
        k = line.find("go test ")
        if k >= 0 and "-run" in line:
            c = line[k:].rstrip("\\").strip()
            if c not in cmds:
                cmds.append(c)
    cmd = " ; ".join("timeout 900 " + c for c in cmds) if cmds else None
    if nested and not place:
        place = "."
    if not place or not cmd:
        print(f"{pid}/{mname}: cannot parse demo.txt (place={place}, cmd={cmd})")
        return None
    wt = f"/tmp/wt/eval_{pid}_{mname}"
    sh(f"git -C /repo worktree remove --force {wt}")
    rc, out = sh(f"git -C /repo worktree add --detach {wt} HEAD")
    viol = []
    res = {"property": pid, "seed": mname, "demo_placement": place, "demo_cmd": cmd}
    try:
        for f in demo_files:
            shutil.copy(os.path.join(seed, f), os.path.join(wt, place, f))
        for rel in nested:
            shutil.copy(os.path.join(seed, rel), os.path.join(wt, rel))
        rc0, out0 = sh("(" + cmd + ") 2>&1 | tail -25", cwd=wt)
        ok_without = "FAIL" not in out0 and ("ok " in out0 or "PASS" in out0)
        rc1, outp = sh(f"git apply {seed}/patch.diff", cwd=wt)
        if rc1 != 0:
            res["error"] = "patch does not apply: " + outp[-300:]
            print(f"{pid}/{mname}: patch does not apply")
            return res
        rcb, outb = sh("go build ./... 2>&1 | tail -5", cwd=wt)
        rc2, out2 = sh("(" + cmd + ") 2>&1 | tail -25", cwd=wt)
        fails_with = "FAIL" in out2
        res["demo_passes_without_patch"] = ok_without
        res["demo_fails_with_patch"] = fails_with
        res["builds_with_patch"] = "cannot" not in outb and "error" not in outb.lower()
        res["demo_output_with_patch"] = out2[-1200:]
        # the existing test suite, unedited, with the patch (demo files removed)
        for f in demo_files:
            os.remove(os.path.join(wt, place, f))
        for rel in nested:
            os.remove(os.path.join(wt, rel))
        # Only packages whose tests can see the change are re-run: a package (or its
        # test variant) that does not depend, directly or transitively, on a changed
        # package compiles to the same test binary as on the unchanged tree, where
        # the suite passes. (cmd/cue/cmd depends on nearly everything and is always in.)
        changed = set()
        for l in open(os.path.join(seed, "patch.diff")):
            mm = re.match(r"\+\+\+ b/(.*)/[^/]+\.go", l)
            if mm:
                changed.add("cuelang.org/go/" + mm.group(1))
        rcl, outl = sh("go list -test -deps -f '{{.ImportPath}}|{{join .Deps \" \"}}' ./... 2>/dev/null", cwd=wt, timeout=900)
        affected = set()
        for l in outl.splitlines():
            if "|" not in l:
                continue
            ip, deps = l.split("|", 1)
            base = ip.split(" ")[0]
            if base.endswith(".test"):
                base = base[:-5]
            if not base.startswith("cuelang.org/go"):
                continue
            ds = set(d.split(" ")[0] for d in deps.split(" ")) if False else set(deps.split())
            if base in changed or (ds & changed):
                affected.add(base.replace("_test", "") if base.endswith("_test") else base)
        pkgs = " ".join(sorted("./" + a[len("cuelang.org/go/"):] if a != "cuelang.org/go" else "." for a in affected)) or "./..."
        res["suite_packages_run"] = len(affected)
        rct, outt = sh("go test -p 8 -vet=off -count=1 -timeout 60m " + pkgs + " 2>&1 | grep -E '^(FAIL|ok|panic)|--- FAIL' | grep -v '^ok' | head -40", cwd=wt, timeout=4500)
        failing = set(re.findall(r"--- FAIL: (\S+)", outt))
        allowed = {"TestScript", "TestScript/fmt_issue1791", "TestScript/modload_unreadable_file"}
        flaky = {"TestScript/cmd_serve", "TestScript/cmd_concurrent"}
        rerun = failing & flaky
        if rerun:
            rcr, outr = sh("go test -vet=off -count=1 ./cmd/cue/cmd -run 'TestScript/(cmd_serve|cmd_concurrent)$' 2>&1 | tail -3", cwd=wt)
            if outr.strip().startswith("ok") or "\nok" in outr:
                failing -= flaky
        pkgfail = [l for l in outt.splitlines() if l.startswith("FAIL\t") and "cmd/cue/cmd" not in l]
        res["existing_tests_pass_with_patch"] = not (failing - allowed) and not pkgfail and "panic" not in outt
        res["existing_tests_failures_with_patch"] = sorted(failing - allowed) + pkgfail
        # run the property's check on the patched tree (the scratch worktree is /repo's
        # HEAD plus the patch: the same tree `git -C /repo apply` would give)
        t0 = time.time()
        rc, out = sh(f"/verif/bin/govc check -prop {pid} -tier quick -no-evidence -repo {wt} -out seed_{pid}_{mname} 2>&1 | grep -v '^UNDECIDED' | tail -8", cwd="/verif", timeout=2400)
        viol = [l for l in out.splitlines() if l.startswith("VIOLATION")]
        res["check_cmd"] = f"/verif/bin/govc check -prop {pid} -tier quick (on /repo's HEAD with the patch applied)"
        res["check_detects"] = len(viol) > 0
        res["check_violations"] = viol
        res["check_tail"] = out[-800:]
        res["check_seconds"] = round(time.time() - t0, 1)
    finally:
        sh(f"git -C /repo worktree remove --force {wt}")
        sh("git -C /repo worktree prune")
    dst = f"/verif/seeded/{pid}-{mname}"
    os.makedirs(dst, exist_ok=True)
    for f in os.listdir(seed):
        if os.path.isfile(os.path.join(seed, f)):
            shutil.copy(os.path.join(seed, f), os.path.join(dst, f))
    for rel in nested:
        os.makedirs(os.path.dirname(os.path.join(dst, rel)), exist_ok=True)
        shutil.copy(os.path.join(seed, rel), os.path.join(dst, rel))
    meta["breaks_property"] = pid
    meta["confirmed_by_us"] = {k: res.get(k) for k in ("demo_placement", "demo_cmd", "demo_passes_without_patch", "demo_fails_with_patch", "builds_with_patch", "existing_tests_pass_with_patch", "existing_tests_failures_with_patch", "suite_packages_run")}
    meta["our_check"] = {k: res.get(k) for k in ("check_cmd", "check_detects", "check_violations", "check_seconds")}
    json.dump(meta, open(os.path.join(dst, "meta.json"), "w"), indent=1)
    print(f"{pid}/{mname}: demo passes without patch={res.get('demo_passes_without_patch')}, fails with patch={res.get('demo_fails_with_patch')}, suite ok={res.get('existing_tests_pass_with_patch')}, check detects={res.get('check_detects')} {viol[:1]}")
    return res

if __name__ == "__main__":
    for s in sys.argv[1:]:
        main(s)
