#!/usr/bin/env python3
"""Regenerates the generated parts of DESIGN.md (between BEGIN/END markers):
the per-property table (from props/*.json and baseline/*.obligations) and the
table of seeded changes (from seeded/*/meta.json)."""
import json, glob, os, re

V = "/verif"
SUMMARY = {
 "C01": ("`updateNodeType`, `updateConjunctInfo`, `updateArcType`, `condition.meets`, `combineDefault(2)`, `mode`, `SimplifyBounds`; lemmas: kind ∩, flags ∪, mode max, arc min are ACI; `processListLit`, `processListVertex` (list length/closedness is a join); `getArc` (one arc per label, merge by minimum)", "error reporting helpers; frames of `insertArc`, `yield`, …"),
 "C02": ("`opInfo` (panic unreachable), `repeatCount`, `MakeLabel`, `intDivOp` (zero divisor never reaches `big.Int`), `cmpTonode`, `token.Pos.Compare` + helpers = specification order (lemmas antisymmetry/reflexivity); the 20 scanner functions incl. `Scan` (no index/slice out of range, no explicit panic); the parser's panic protocol (`errf`, `incNestLevel`: explicit panics only with `panicking` set); `toposort.compareNodeByName` = specification order, lemmas strict/antisymmetric/transitive; **safety sweep** (S, no contract) of 60 functions: evaluator (`SliceExpr.evaluate`, `Builtin.call`, validators, clauses, …), compiler scope stack, error list, exporter, toposort, printer, `pkg/list`, `pkg/strings`", "apd BigInt, label table bijective (C19), sort correctness"),
 "C03": ("`SimplifyBounds` (keepx/keepy/bottom/nofab over all atoms), `opInfo`, `cmpTonode`, `errIncompatibleBounds`, `NewBool`, `HasErr`, `Err`, `BinOp` comparison arms, `compile.init` (every predeclared integer range is a row of the spec table)", "apd, `BinOpBool`, `NewErrf`, `strconv.Itoa` model"),
 "C04": ("`mode`, `combineDefault`, `combineDefault2` (complete, finite domains), `Disjunction.Default`, `finalizeDisjunctions` (0 ≤ NumDefaults ≤ len, no hole), `appendDisjunct` (default mark never lost/invented when a duplicate is dropped), `equalTerminal` (bounds equal only with the same operator), `Vertex.Default` (several defaults stay a disjunction of exactly those)", "`Equal`, `equalPartialNode`, `freeDisjunct`, `mergeCloseInfo` frames"),
 "C05": ("label packing/classification (12 functions, `arith bv`), `allowedInClosed`, `updateArcType`, `getArc`, `hasEvidenceForAll`, `hasEvidenceForOne` (direct evidence; no evidence without embedding scope), `lookupSet`; `ConstraintFromToken`/`ArcType.Token` inverse; lemma partition", "`containsDefID`, the embedding part of the evidence rule"),
 "C06": ("`BinOp` comparison arms, `cmpTonode`, `numOp`, `Add/Sub/Mul/Quo`, `exactIntOp`, `newNum`, `intDivOp`, `IntDiv/IntMod/IntQuo/IntRem`; `literal.init#1` (unlimited precision context) and `NumInfo.decimal` (literal × multiplier is exact)", "apd incl. BigInt, `internal.Context.Quo`"),
 "C07": ("`boundSimplifier.add`, `.expr`, `wrapBin`, `MatchBuiltinRange`, `BoundValue.Kind`; `literal.appendEscaped`, `appendEscapedRune`, `singleLineHashCount`; `ConstraintFromToken`/`ArcType.Token` inverse; `exporter.stringLabel`, `ast.NewStringLabel`, `StringLabelNeedsQuoting` (label class survives, `#x`/`_x` always quoted)", "`exporter.expr`, `IsValidIdent`, ast constructors, utf8"),
 "C09": ("11 `token` functions, 20 `scanner` functions incl. `Scan` (window invariant, every index/slice in bounds); lemma Pos/Offset inverse; `literal.appendEscaped` (raw byte escape only for one invalid byte), `appendEscapedRune` (byte escape only for ASCII), `singleLineHashCount` (no early close, no escape, no triple quote); the parser's panic protocol (`errf`, `incNestLevel`, `closeList`, `closeNode` panic only with `panicking` set; `checkExpr`'s panic unreachable via `unparen`); safety sweep (S) of `Unquote`, `Form.Append/Quote`, `ParseNum`, the parser's comment stack", "`scanString`, `scanEscape`, `errf`, `AddLine`, utf8"),
 "C14": ("all of `internal/mod/semver` (11 functions) incl. recursive prerelease spec; 8 order lemmas; `mvs.Graph.Selected`, `Graph.Require` (monotone, sufficient, minimal for any total preorder), worker closure of `buildList` (every requirement is queued), `par.Work.Add`/`init` under a monitor", "bytewise order axioms, `vcmp` total preorder, queue ownership"),
 "C15": ("`fileNameOK`, `checkElem`, `checkPath`, `CheckFilePath`, `CheckedFiles.Err`, `CheckZip` (+closure; names and the size accounting), `Unzip` (effects), the `WalkDir` callback of `listFilesInDir` (SkipDir only for directories, every entry accounted for), `collisionChecker.check` (case-fold, file/dir and duplicate clashes; entries never forgotten)", "os/io/zip/path/strings, WalkDir"),
 "C16": ("`Cache.downloadDir`, `Cache.Fetch` (ghost dirState/partial/held, CI after every effect), `downloadZip1` + its deferred cleanup (ghost zipState/tmpState: rename only of a fully written, closed temp file; stale temp files removed only if owned), `writeDiskCache` (same protocol for module files)", "all file-system effect contracts, glob axiom"),
 "C18": ("`Task.done`, `Task.isReady`, `Controller.markReady`, `Controller.runLoop` (go effect), `tagChildren`, `getTask` (node-to-task map covers a task's children in every state)", "frame contracts, channel contract, `initTasks`, user callbacks"),
 "C19": ("`getKey`, `IndexToString`, `getNextUniqueID`, `LoadInstance`, `getNodeFromInstance`, `AddInst` (two monitors), `Vertex.MatchAndInsert` (no write through a pre-existing Environment), `adt.New` (private context, fresh generation id), `Vertex.Default`/`DerefValue` (no write to a pre-existing vertex or list marker)", "mutex exclusion, frames of `Accept`, `matchPattern`, `insertConjunct`"),
 "C20": ("`subsumer.bound`, `isBottom`, `BoundValue.Kind`; trim's `comprehensionDependsOn` and `isAncestorOf` (depth ≤ 3 of the parent chains)", "`BinOpBool`, `IsConcrete`, `slices.Contains`"),
}

def a3():
    known = json.load(open(f"{V}/known_findings.json"))["findings"]
    rows = ["| id | functions verified against their bodies (V) | functions / lemmas | obligations (baseline) | main assumed contracts |", "|---|---|---|---|---|"]
    for f in sorted(glob.glob(f"{V}/props/C*.json")):
        pid = os.path.basename(f)[:3]
        c = json.load(open(f))
        n = sum(1 for l in open(f"{V}/baseline/{pid}.obligations") if l.strip())
        kf = sum(1 for k in known if k["property"] == pid and k["status"] == "known")
        obl = str(n) + (f" (+{kf} known findings)" if kf else "")
        s = SUMMARY[pid]
        rows.append(f"| {pid} | {s[0]} | {len(c['functions'])}{('+'+str(len(c['sweep']))+'S') if c.get('sweep') else ''} / {len(c.get('lemmas', []))} | {obl} | {s[1]} |")
    return "\n".join(rows)

def seeds():
    rows = ["| seed | changed | what breaks | demo confirmed (passes without / fails with) | existing suite passes with it | detected by the property's check | failing obligation |", "|---|---|---|---|---|---|---|"]
    for d in sorted(glob.glob(f"{V}/seeded/*/")):
        name = os.path.basename(d.rstrip("/"))
        try:
            m = json.load(open(d + "meta.json"))
        except Exception:
            continue
        cb = m.get("confirmed_by_us", {})
        oc = m.get("our_check", {})
        files = m.get("files_changed") or m.get("files") or []
        if isinstance(files, str):
            files = [files]
        summ = (m.get("summary") or m.get("description") or "")
        summ = re.sub(r"\s+", " ", summ)[:160].replace("|", "\\|")
        viol = oc.get("check_violations") or []
        ob = ""
        if viol:
            ob = "; ".join(sorted({re.sub(r".*/replay/[^/]+/", "", v.split("replay=")[1].split()[0]).replace(".json", "") for v in viol}))[:150]
            if any("no-failing-input-found" not in v for v in viol):
                ob += " (input reproduced)"
        det = {True: "**yes**", False: "no", None: "not run"}[oc.get("check_detects")]
        rows.append(f"| {name} | {', '.join('`'+os.path.basename(x)+'`' for x in files)} | {summ} | {cb.get('demo_passes_without_patch')} / {cb.get('demo_fails_with_patch')} | {cb.get('existing_tests_pass_with_patch')} | {det} | {ob} |")
    return "\n".join(rows)

def put(s, tag, body):
    b, e = f"<!-- {tag}:BEGIN -->", f"<!-- {tag}:END -->"
    i, j = s.index(b), s.index(e)
    return s[:i + len(b)] + "\n" + body + "\n" + s[j:]

if __name__ == "__main__":
    p = f"{V}/DESIGN.md"
    s = open(p).read()
    s = put(s, "A3TABLE", a3())
    s = put(s, "SEEDTABLE", seeds())
    open(p, "w").write(s)
