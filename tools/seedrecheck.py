#!/usr/bin/env python3
"""Re-runs only the property check for seeded changes already confirmed and stored
under /verif/seeded/<id>-<m>/ (scratch worktree of /repo's HEAD + patch), and
updates our_check in meta.json.   usage: seedrecheck.py [<id>-<m> ...]   (default: all)"""
import json, os, subprocess, sys, time, glob
ENV = dict(os.environ, GOFLAGS="-mod=mod", GOPROXY="off")
def sh(cmd, cwd=None, timeout=3000):
    p = subprocess.run(cmd, shell=True, cwd=cwd, env=ENV, stdout=subprocess.PIPE, stderr=subprocess.STDOUT, text=True, timeout=timeout)
    return p.returncode, p.stdout
names = sys.argv[1:] or sorted(os.path.basename(d.rstrip("/")) for d in glob.glob("/verif/seeded/*/"))
for name in names:
    d = f"/verif/seeded/{name}"
    meta = json.load(open(f"{d}/meta.json"))
    pid = name.split("-")[0]
    wt = f"/tmp/wt/re_{name}"
    sh(f"git -C /repo worktree remove --force {wt}")
    sh(f"git -C /repo worktree add --detach {wt} HEAD")
    try:
        rc, out = sh(f"git apply {d}/patch.diff", cwd=wt)
        if rc != 0:
            print(name, "patch does not apply:", out[-200:]); continue
        t0 = time.time()
        rc, out = sh(f"/verif/bin/govc check -prop {pid} -tier quick -no-evidence -repo {wt} -out re_{name} 2>&1 | grep -v '^UNDECIDED' | tail -8", cwd="/verif")
        viol = [l for l in out.splitlines() if l.startswith("VIOLATION")]
        meta["our_check"] = {"check_cmd": f"/verif/bin/govc check -prop {pid} -tier quick (on /repo's HEAD with the patch applied)", "check_detects": len(viol) > 0, "check_violations": viol, "check_seconds": round(time.time() - t0, 1), "repo_head": sh("git -C /repo rev-parse --short HEAD")[1].strip()}
        json.dump(meta, open(f"{d}/meta.json", "w"), indent=1)
        print(name, "detects=", len(viol) > 0, viol[:1], flush=True)
    finally:
        sh(f"git -C /repo worktree remove --force {wt}")
        sh("git -C /repo worktree prune")
