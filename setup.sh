#!/bin/sh
# Builds the verification-condition generator from source, offline.
set -e
cd /verif/govc
export GOFLAGS=-mod=mod GOPROXY=off
mkdir -p /verif/bin
# build beside the target and rename: safe while an older binary is running
go build -o /verif/bin/govc.new .
mv -f /verif/bin/govc.new /verif/bin/govc
