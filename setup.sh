#!/bin/sh
# Builds the verification-condition generator from source, offline.
set -e
cd /verif/govc
export GOFLAGS=-mod=mod GOPROXY=off
mkdir -p /verif/bin
go build -o /verif/bin/govc .
