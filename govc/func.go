package main

import (
	"fmt"
	"go/constant"
	"go/token"
	"go/types"
	"math/big"
	"sort"
	"strings"

	"golang.org/x/tools/go/ssa"
)

type modEntry struct {
	block *ssa.BasicBlock
	comp  string
	sort  Sort
}

// encoding pass bookkeeping lives in fnEnc (declared here to keep encode.go small)
type passInfo struct {
	pass     int
	loopMods map[int]map[string]Sort // loop ordinal -> comps modified ("*" = everything)
	modLog   []modEntry
	epoch    int
}

var passOf = map[*fnEnc]*passInfo{}

func (e *fnEnc) pi() *passInfo { return passOf[e] }

func (e *fnEnc) logMod(comp string, s Sort) {
	p := e.pi()
	blk := e.curBlock
	if e.hostBlock != nil {
		blk = e.hostBlock // effects of inlined code belong to the call site's block (loop analysis)
	}
	p.modLog = append(p.modLog, modEntry{blk, comp, s})
}

// EncodeFunc builds the verification conditions of one function under contract.
func (eng *Engine) EncodeFunc(name string) (enc *fnEnc, err error) {
	fn := eng.funcs[name]
	if fn == nil {
		return nil, fmt.Errorf("function %s not found (orphan contract)", name)
	}
	ctr := eng.contracts[name]
	if ctr == nil {
		ctr = &FuncContract{Name: name, Options: map[string]string{}}
		if fn.Pkg != nil {
			ctr.Pkg = fn.Pkg.Pkg.Path()
		}
	}
	if len(fn.Blocks) == 0 {
		return nil, fmt.Errorf("function %s has no body", name)
	}
	var mods map[int]map[string]Sort
	for pass := 1; pass <= 2; pass++ {
		e := newFnEnc(eng, fn, name, ctr)
		pi := &passInfo{pass: pass, loopMods: mods}
		passOf[e] = pi
		err = e.run()
		delete(passOf, e)
		if err != nil {
			return e, err
		}
		if pass == 1 {
			mods = map[int]map[string]Sort{}
			for _, li := range e.loops {
				m := map[string]Sort{}
				for _, me := range pi.modLog {
					if li.body[me.block] {
						m[me.comp] = me.sort
					}
				}
				mods[li.ord] = m
			}
		} else {
			enc = e
		}
	}
	return enc, nil
}

func newFnEnc(eng *Engine, fn *ssa.Function, name string, ctr *FuncContract) *fnEnc {
	e := &fnEnc{
		eng: eng, fn: fn, name: name, ctr: ctr, pkg: ctr.Pkg,
		sortSeen: map[Sort]bool{SInt: true, SBool: true, SReal: true}, declSeen: map[string]bool{},
		structs: map[string]*structInfo{},
		vals:    map[ssa.Value]Term{}, lvals: map[ssa.Value]*LValue{}, tuples: map[ssa.Value][]Term{},
		closures: map[ssa.Value]*ssa.MakeClosure{},
		reach:   map[*ssa.BasicBlock]Term{}, outSt: map[*ssa.BasicBlock]*state{}, edge: map[[2]int]Term{},
		oblNames: map[string]int{}, assumptions: map[string]bool{}, strLits: map[string]Term{},
		ghostVars: map[string]Term{}, paramVal: map[string]SVal{}, implFns: map[string]*types.Interface{}, backGoals: map[int][]*backEdgeGoals{}, embIDs: map[string]int{}, invUse: map[string]bool{}, acquired: map[string]*state{}, fieldGuardCount: map[string]int{},
	}
	if e.pkg == "" && fn.Pkg != nil {
		e.pkg = fn.Pkg.Pkg.Path()
	}
	switch strings.TrimSpace(ctr.Options["arith"]) {
	case "bv":
		e.arithBV = true
	}
	if strings.TrimSpace(ctr.Options["strings"]) == "abstract" {
		e.strAbstract = true
	}
	if strings.Contains(ctr.Options["check"], "nil") {
		e.checkNil = true
	}
	if strings.Contains(ctr.Options["nocheck"], "bounds") {
		e.noBounds = true
	}
	if ctr.Options["may_panic"] != "" {
		e.mayPanic = true
	}
	return e
}

func (e *fnEnc) run() (err error) {
	defer func() {
		if r := recover(); r != nil {
			if o, ok := r.(outOfSubset); ok {
				where := ""
				if e.curBlock != nil && e.curIdx < len(e.curBlock.Instrs) {
					in := e.curBlock.Instrs[e.curIdx]
					where = fmt.Sprintf(" at %s [%s]", e.eng.prog.Fset.Position(in.Pos()), in)
				}
				err = fmt.Errorf("out-of-subset: %s%s", o.msg, where)
				return
			}
			panic(r)
		}
	}()
	e.analyzeCFG()
	fn := e.fn
	if e.ctr.Options["pure"] != "" {
		if why := e.impureReason(); why != "" {
			e.orphanClauses = append(e.orphanClauses, fmt.Sprintf("%s is declared pure but %s", e.shortFuncName(), why))
		}
	}
	for _, cl := range e.ctr.Clauses {
		if strings.HasPrefix(cl.Kind, "loop-") && cl.Loop >= len(e.loops) {
			e.orphanClauses = append(e.orphanClauses, fmt.Sprintf("%s: loop %d clause refers to a loop that does not exist (function has %d loops)", e.shortFuncName(), cl.Loop, len(e.loops)))
		}
	}

	// entry state
	st := &state{m: map[string]Term{}}
	st.alloc = e.declare("alloc@0", SInt)
	e.assert(le(intLit(0), st.alloc))
	e.entrySt = st.clone()

	for _, p := range fn.Params {
		v := e.declare("p."+p.Name(), e.sortOf(p.Type()))
		e.vals[p] = v
		e.assert(e.rangeOf(v, p.Type()))
		e.assert(e.existsAt(v, p.Type(), st.alloc))
		e.paramVal[p.Name()] = SVal{t: v, typ: p.Type()}
	}
	for _, p := range fn.FreeVars {
		v := e.declare("fv."+p.Name(), e.sortOf(p.Type()))
		e.vals[p] = v
		e.assert(e.existsAt(v, p.Type(), st.alloc))
		e.assert(lt(intLit(0), v)) // the address of a captured variable is never nil
		// a free variable is a pointer to the captured variable
		e.paramVal[p.Name()] = SVal{t: v, typ: p.Type(), fvPtr: true}
	}
	// distinct captured variables are distinct cells
	for i, p := range fn.FreeVars {
		for _, q := range fn.FreeVars[i+1:] {
			if e.sortOf(p.Type()) == e.sortOf(q.Type()) {
				e.assert(not(eq(e.vals[p], e.vals[q])))
			}
		}
	}

	e.assumeGlobalInvs(st)
	// requires
	env := e.entryEnv(st)
	for _, cl := range e.ctr.Get("requires") {
		t := e.evalBool(cl.E, env)
		e.assert(t)
	}
	e.obligation("cover", "requires-satisfiable", tTrue, tTrue, "", "", true)

	// blocks
	for _, b := range e.order {
		e.encodeBlock(b)
	}
	e.curBlock = nil
	// loop preservation: one obligation per invariant clause over all back edges
	for _, li := range e.loops {
		bes := e.backGoals[li.ord]
		for i, cl := range e.loopClauses(li.ord, "loop-invariant") {
			var gs []Term
			for _, be := range bes {
				gs = append(gs, imp(be.cond, be.inv[i]))
			}
			o := e.obligationNoAssume("inv", fmt.Sprintf("loop %d:preserve:%s", li.ord, clauseLabel(cl, i)), tTrue, and(gs...), cl.Text, cl.Line)
			if len(bes) > 8 {
				// a loop with many back edges (one per `continue`): one query per back
				// edge, same obligation (the cases cover every way to fail: a
				// counter-model takes at least one back edge)
				for _, be := range bes {
					o.Cases = append(o.Cases, be.cond.S)
				}
			}
		}
		if _, all := e.assignsTargets(); !all && len(bes) > 0 {
			var gs []Term
			for _, be := range bes {
				if be.frame.S != "" {
					gs = append(gs, imp(be.cond, be.frame))
				}
			}
			if g := and(gs...); g.S != "true" {
				e.obligationNoAssume("frame", fmt.Sprintf("loop %d", li.ord), tTrue, g, "frame is preserved by the loop body", "")
			}
		}
		for i, cl := range e.loopClauses(li.ord, "loop-decreases") {
			var gs []Term
			for _, be := range bes {
				gs = append(gs, imp(be.cond, be.dec[i]))
			}
			e.obligationNoAssume("dec", fmt.Sprintf("loop %d:%s", li.ord, clauseLabel(cl, i)), tTrue, and(gs...), cl.Text, cl.Line)
		}
	}
	// merged exit point: results and heap joined over all return points
	if len(e.retSt) > 0 {
		var rs []Term
		for _, rp := range e.retSt {
			rs = append(rs, rp.reach)
		}
		exitReach := e.declare("reach.exit", SBool)
		e.assert(eq(exitReach, or(rs...)))
		var st *state
		if len(e.retSt) == 1 {
			st = e.retSt[0].st
		} else {
			st = e.mergeStatesNamed("exit", func(yield func(*state, Term)) {
				for _, rp := range e.retSt {
					yield(rp.st, rp.reach)
				}
			})
		}
		sig := e.fn.Signature
		rn := resultNames(sig)
		env := e.entryEnv(st)
		for i := 0; i < sig.Results().Len(); i++ {
			rt := sig.Results().At(i).Type()
			var r Term
			if len(e.retSt) == 1 {
				r = e.retSt[0].results[i]
			} else {
				r = e.declare(fmt.Sprintf("ret.%d", i), e.sortOf(rt))
				for _, rp := range e.retSt {
					e.assert(imp(rp.reach, eq(r, rp.results[i])))
				}
			}
			env.vars[rn[i]] = SVal{t: r, typ: rt}
			env.vars[fmt.Sprintf("result%d", i)] = SVal{t: r, typ: rt}
			if sig.Results().Len() == 1 {
				env.vars["result"] = SVal{t: r, typ: rt}
			}
		}
		e.obligation("cover", "return-reachable", exitReach, tTrue, "", "", true)
		if e.ctr.Options["nocheck"] == "" || !strings.Contains(e.ctr.Options["nocheck"], "frame") {
			e.frameObligations(st, exitReach)
		}
		for i, cl := range e.ctr.Get("always") {
			e.obligationNoAssume("always", clauseLabel(cl, i)+":exit", exitReach, e.evalBool(cl.E, env), cl.Text, cl.Line)
		}
		var cases []string
		// one query per return point for functions with many returns, or on request
		// (`mode splitreturns`: cheaper queries for a heavy postcondition)
		if len(e.retSt) > 8 || (len(e.retSt) > 1 && strings.Contains(e.ctr.Options["mode"], "splitreturns")) {
			for _, rp := range e.retSt {
				cases = append(cases, rp.reach.S)
			}
		}
		for i, cl := range e.ctr.Get("ensures") {
			g := e.evalBool(cl.E, env)
			o := e.obligationNoAssume("post", clauseLabel(cl, i), exitReach, g, cl.Text, cl.Line)
			o.Cases = cases
		}
	}
	return nil
}

// existsAt: references held by a value were allocated at or before 'alloc'.
func (e *fnEnc) existsAt(v Term, t types.Type, alloc Term) Term {
	switch types.Unalias(t).Underlying().(type) {
	case *types.Pointer:
		// a negative reference is the address of an inline struct field: its root object exists
		rootf := e.declareFun("rootobj", []Sort{SInt}, SInt)
		rt := app(SInt, rootf, v)
		return and(le(v, alloc), imp(lt(v, intLit(0)), and(lt(intLit(0), rt), le(rt, alloc))))
	case *types.Map, *types.Chan:
		return le(v, alloc)
	case *types.Slice:
		return le(slBase(v), alloc)
	case *types.Interface:
		if v.Sort == SIface {
			return le(ifPtr(v), alloc)
		}
	}
	return tTrue
}

func (e *fnEnc) entryEnv(st *state) *specEnv {
	env := &specEnv{enc: e, vars: map[string]SVal{}, st: st, old: e.entrySt, pkg: e.pkg}
	for k, v := range e.paramVal {
		env.vars[k] = v
	}
	return env
}

func (e *fnEnc) obligation(kind, name string, reach, goal Term, src, pos string, cover bool) *Obligation {
	full := e.shortFuncName() + "#" + kind
	if e.ns != "" {
		full += ":inlined " + shortCallee(canonFuncName(e.fn.String()))
	}
	if name != "" {
		full += ":" + name
	}
	if n := e.oblNames[full]; n > 0 {
		e.oblNames[full] = n + 1
		full = fmt.Sprintf("%s~%d", full, n+1)
	} else {
		e.oblNames[full] = 1
	}
	o := &Obligation{Name: full, Kind: kind, Func: e.name, Prefix: len(e.cons), Reach: reach, Goal: goal, Src: src, Pos: pos, Cover: cover, enc: e}
	e.obls = append(e.obls, o)
	if !cover {
		// later obligations may assume this one
		e.assert(imp(reach, goal))
	}
	return o
}

// obligationNoAssume: like obligation, but later obligations do not assume it
// (used for postconditions and loop preservation, which sit at the end).
func (e *fnEnc) obligationNoAssume(kind, name string, reach, goal Term, src, pos string) *Obligation {
	n := len(e.cons)
	o := e.obligation(kind, name, reach, goal, src, pos, false)
	e.cons = e.cons[:n]
	return o
}

func (e *fnEnc) shortFuncName() string {
	s := e.name
	s = strings.ReplaceAll(s, repoModule+"/", "")
	return s
}

func (e *fnEnc) posOf(in ssa.Instruction) string {
	p := in.Pos()
	if !p.IsValid() {
		return ""
	}
	pp := e.eng.prog.Fset.Position(p)
	return fmt.Sprintf("%s:%d", strings.TrimPrefix(pp.Filename, e.eng.RepoDir+"/"), pp.Line)
}

// srcText returns a short, line-number-free rendering of an instruction for obligation names.
func srcText(in ssa.Instruction) string {
	s := in.String()
	if v, ok := in.(ssa.Value); ok {
		_ = v
	}
	if len(s) > 60 {
		s = s[:60]
	}
	return s
}

func (e *fnEnc) encodeBlock(b *ssa.BasicBlock) {
	e.curBlock = b
	e.curIdx = 0
	pi := e.pi()
	var st *state
	var reach Term
	type inEdge struct {
		p    *ssa.BasicBlock
		cond Term
		pidx int // index in b.Preds
	}
	var ins []inEdge
	for i, p := range b.Preds {
		if e.backEdge[[2]int{p.Index, b.Index}] {
			continue
		}
		c, ok := e.edge[[2]int{p.Index, b.Index}]
		if !ok {
			continue // predecessor unreachable (e.g. after panic) or not processed
		}
		ins = append(ins, inEdge{p, c, i})
	}
	if b.Index == 0 && e.inlEntry != nil {
		reach = e.inlEntry.reach
		st = e.inlEntry.st.clone()
	} else if b.Index == 0 {
		reach = tTrue
		st = e.entrySt.clone()
	} else {
		if len(ins) == 0 {
			// unreachable block (only reachable via recover etc.)
			e.reach[b] = tFalse
			e.outSt[b] = e.entrySt.clone()
			return
		}
		var cs []Term
		for _, in := range ins {
			cs = append(cs, in.cond)
		}
		rc := e.declare(fmt.Sprintf("reach.%s%d", e.ns, b.Index), SBool)
		e.assert(eq(rc, or(cs...)))
		reach = rc
		// merge states
		if len(ins) == 1 {
			st = e.outSt[ins[0].p].clone()
		} else {
			st = e.mergeStates(b, ins[0].p, func(yield func(*state, Term)) {
				for _, in := range ins {
					yield(e.outSt[in.p], in.cond)
				}
			})
		}
	}
	e.reach[b] = reach

	// phis
	nphi := 0
	for _, in := range b.Instrs {
		phi, ok := in.(*ssa.Phi)
		if !ok {
			break
		}
		nphi++
		v := e.declare(e.valName(phi), e.sortOf(phi.Type()))
		for _, ie := range ins {
			ev := e.val(phi.Edges[ie.pidx])
			e.assert(imp(ie.cond, eq(v, ev)))
		}
		e.vals[phi] = v
	}

	if li := e.loopOf[b]; li != nil {
		// invariant on entry
		env := e.envAt(b, nphi, st)
		for i, cl := range e.loopClauses(li.ord, "loop-invariant") {
			g := e.evalBool(cl.E, env)
			e.obligation("inv", fmt.Sprintf("loop %d:entry:%s", li.ord, clauseLabel(cl, i)), reach, g, cl.Text, cl.Line, false)
		}
		// havoc
		// stable cells the loop body itself does not store to keep their value
		saved := e.saveStable(st, func(a *ssa.Alloc) bool {
			for _, r := range *a.Referrers() {
				if s, ok := r.(*ssa.Store); ok && li.body[s.Block()] {
					return true
				}
			}
			return false
		})
		if pi.pass == 1 || pi.loopMods[li.ord]["*"] != "" {
			pi.epoch++
			old := st
			st = &state{m: map[string]Term{}, alloc: st.alloc}
			for k, v := range old.m {
				if strings.HasPrefix(k, "Ghost.") {
					st.m[k] = v
				}
			}
			st.m["!epoch"] = T(SInt, fmt.Sprint(pi.epoch))
			e.restoreStable(st, saved)
		} else {
			var comps []string
			for c := range pi.loopMods[li.ord] {
				comps = append(comps, c)
			}
			sort.Strings(comps)
			for _, c := range comps {
				st.m[c] = e.freshConst(c+"@L"+fmt.Sprint(li.ord), pi.loopMods[li.ord][c])
			}
			var keep []stableVal
			for _, sv := range saved {
				if _, havocked := pi.loopMods[li.ord][sv.comp]; havocked {
					keep = append(keep, sv)
				}
			}
			e.restoreStable(st, keep)
		}
		na := e.freshConst("alloc@L"+fmt.Sprint(li.ord), SInt)
		e.assert(le(st.alloc, na))
		st.alloc = na
		for i := 0; i < nphi; i++ {
			phi := b.Instrs[i].(*ssa.Phi)
			v := e.freshConst(e.valName(phi)+"@L", e.sortOf(phi.Type()))
			e.vals[phi] = v
			e.assert(imp(reach, e.rangeOf(v, phi.Type())))
			e.assert(e.existsAt(v, phi.Type(), st.alloc))
			if phi.Comment == "rangeindex" && v.Sort == SInt {
				// go/ssa lowers `for i := range slice` to an index that starts at -1 and is only incremented
				e.assert(le(intLit(-1), v))
			}
		}
		env = e.envAt(b, nphi, st)
		for _, cl := range e.loopClauses(li.ord, "loop-invariant") {
			e.assert(imp(reach, e.evalBool(cl.E, env)))
		}
		for _, cl := range e.loopClauses(li.ord, "loop-assume") {
			e.assert(imp(reach, e.evalBool(cl.E, env)))
			e.assume("assumed at the head of loop " + fmt.Sprint(li.ord) + " of " + e.shortFuncName() + " (not checked): " + cl.Text)
		}
		// implicit invariant: the function's frame holds at the loop head
		// (checked at exit like any other path; here it is assumed for the havocked
		// components and re-established on every back edge, see backEdgeObligations)
		if pi.pass == 2 {
			e.assert(imp(reach, e.frameAssumption(st)))
		}
		// record decreases measure at the top of the iteration
		for i, cl := range e.loopClauses(li.ord, "loop-decreases") {
			m := e.evalSpec(cl.E, env)
			mv := e.freshConst(fmt.Sprintf("measure.%d.%d", li.ord, i), SInt)
			e.assert(eq(mv, m.t))
			e.ghostVars[fmt.Sprintf("!measure.%d.%d", li.ord, i)] = mv
		}
	}

	cur := &blockCtx{b: b, st: st, reach: reach}
	for i := nphi; i < len(b.Instrs); i++ {
		e.curIdx = i
		e.instr(cur, b.Instrs[i])
		if cur.dead {
			break
		}
	}
	e.outSt[b] = cur.st
}

func clauseLabel(cl *Clause, i int) string {
	if cl.Name != "" {
		return cl.Name
	}
	return fmt.Sprint(i)
}

func (e *fnEnc) loopClauses(ord int, kind string) []*Clause {
	var out []*Clause
	for _, cl := range e.ctr.Clauses {
		if cl.Kind == kind && cl.Loop == ord {
			out = append(out, cl)
		}
	}
	return out
}

func (e *fnEnc) valName(v ssa.Value) string {
	n := v.Name()
	if phi, ok := v.(*ssa.Phi); ok && phi.Comment != "" {
		n += "." + phi.Comment
	}
	return "v." + e.ns + n
}

// mergeStates joins predecessor states.
func (e *fnEnc) mergeStates(b *ssa.BasicBlock, first *ssa.BasicBlock, each func(func(*state, Term))) *state {
	return e.mergeStatesNamed(fmt.Sprintf("b%s%d", e.ns, b.Index), each)
}

func (e *fnEnc) mergeStatesNamed(label string, each func(func(*state, Term))) *state {
	var sts []*state
	var conds []Term
	each(func(s *state, c Term) { sts = append(sts, s); conds = append(conds, c) })
	out := &state{m: map[string]Term{}}
	// epochs
	sameEpoch := true
	for _, s := range sts[1:] {
		if s.m["!epoch"] != sts[0].m["!epoch"] {
			sameEpoch = false
		}
	}
	if sameEpoch {
		if ep, ok := sts[0].m["!epoch"]; ok {
			out.m["!epoch"] = ep
		}
	} else {
		pi := e.pi()
		pi.epoch++
		out.m["!epoch"] = T(SInt, fmt.Sprint(pi.epoch))
		out.lazyFrom = sts
		out.lazyCond = conds
	}
	if sameEpoch {
		out.lazyFrom, out.lazyCond = sts[0].lazyFrom, sts[0].lazyCond
	}
	keys := map[string]bool{}
	for _, s := range sts {
		for k := range s.m {
			if k != "!epoch" {
				keys[k] = true
			}
		}
	}
	var ks []string
	for k := range keys {
		ks = append(ks, k)
	}
	sort.Strings(ks)
	for _, k := range ks {
		var terms []Term
		same := true
		var srt Sort
		for _, s := range sts {
			if t, ok := s.m[k]; ok {
				srt = t.Sort
			}
		}
		for _, s := range sts {
			t, ok := s.m[k]
			if !ok {
				t = e.heapGetEpoch(s, k, srt)
			}
			terms = append(terms, t)
			if t.S != terms[0].S {
				same = false
			}
		}
		if same {
			out.m[k] = terms[0]
			continue
		}
		nv := e.freshConst(fmt.Sprintf("%s@%s", k, label), srt)
		for i, t := range terms {
			e.assert(imp(conds[i], eq(nv, t)))
		}
		out.m[k] = nv
	}
	// alloc
	sameA := true
	for _, s := range sts[1:] {
		if s.alloc.S != sts[0].alloc.S {
			sameA = false
		}
	}
	if sameA {
		out.alloc = sts[0].alloc
	} else {
		na := e.freshConst(fmt.Sprintf("alloc@%s", label), SInt)
		for i, s := range sts {
			e.assert(imp(conds[i], eq(na, s.alloc)))
		}
		out.alloc = na
	}
	return out
}

func (e *fnEnc) heapGetEpoch(st *state, comp string, s Sort) Term {
	ep := "0"
	if t, ok := st.m["!epoch"]; ok {
		ep = t.S
	}
	if strings.HasPrefix(comp, "Ghost.") {
		ep = "0" // ghost state is unaffected by heap havoc
		return e.declare(comp+"@0", s)
	}
	name := comp + "@" + ep
	first := !e.declSeen[sym(name)]
	t := e.declare(name, s)
	if first && len(st.lazyFrom) > 0 {
		// joined state: link the component to its value in each joined predecessor
		for i, from := range st.lazyFrom {
			var ft Term
			if v, ok := from.m[comp]; ok {
				ft = v
			} else {
				ft = e.heapGetEpoch(from, comp, s)
			}
			e.assert(imp(st.lazyCond[i], eq(t, ft)))
		}
	}
	return t
}


// stableCells: heap-allocated locals of non-struct type whose address is known
// only to this function and to closures that merely read them. No callee can
// modify such a cell, so its value survives the havoc of a call (a syntactic
// fact about the code, not an assumption).
func (e *fnEnc) stableCells() []*ssa.Alloc {
	if e.stableDone {
		return e.stable
	}
	e.stableDone = true
	var readOnlyFV func(fv *ssa.FreeVar, depth int) bool
	readOnlyFV = func(fv *ssa.FreeVar, depth int) bool {
		if depth > 4 || fv.Referrers() == nil {
			return false
		}
		for _, r := range *fv.Referrers() {
			switch r := r.(type) {
			case *ssa.UnOp:
				if r.Op != token.MUL {
					return false
				}
			case *ssa.DebugRef:
			case *ssa.MakeClosure:
				fn2 := r.Fn.(*ssa.Function)
				for i, b := range r.Bindings {
					if b == ssa.Value(fv) && !readOnlyFV(fn2.FreeVars[i], depth+1) {
						return false
					}
				}
			default:
				return false
			}
		}
		return true
	}
	for _, b := range e.fn.Blocks {
		for _, in := range b.Instrs {
			a, ok := in.(*ssa.Alloc)
			if !ok || !a.Heap || a.Referrers() == nil {
				continue
			}
			if isStructType(a.Type().(*types.Pointer).Elem()) {
				continue
			}
			if _, isArr := types.Unalias(a.Type().(*types.Pointer).Elem()).Underlying().(*types.Array); isArr {
				continue
			}
			ok = true
			captured := false
			for _, r := range *a.Referrers() {
				switch r := r.(type) {
				case *ssa.UnOp:
					if r.Op != token.MUL {
						ok = false
					}
				case *ssa.Store:
					if r.Addr != ssa.Value(a) {
						ok = false // the address itself is stored somewhere
					}
				case *ssa.DebugRef:
				case *ssa.MakeClosure:
					captured = true
					fn2 := r.Fn.(*ssa.Function)
					for i, bd := range r.Bindings {
						if bd == ssa.Value(a) && !readOnlyFV(fn2.FreeVars[i], 0) {
							ok = false
						}
					}
				default:
					ok = false
				}
			}
			if ok && captured {
				e.stable = append(e.stable, a)
			}
		}
	}
	return e.stable
}

// saveStable / restoreStable carry the stable cells across a full havoc.
func (e *fnEnc) saveStable(st *state, skip func(*ssa.Alloc) bool) []stableVal {
	var out []stableVal
	for _, a := range e.stableCells() {
		addr, ok := e.vals[a]
		if !ok || (skip != nil && skip(a)) {
			continue
		}
		srt := e.sortOf(a.Type().(*types.Pointer).Elem())
		comp, cs := e.boxComp(srt)
		out = append(out, stableVal{comp, cs, addr, sel(e.heapGet(st, comp, cs), addr, srt)})
	}
	return out
}

func (e *fnEnc) restoreStable(st *state, vs []stableVal) {
	for _, v := range vs {
		e.heapSet(st, v.comp, store(e.heapGet(st, v.comp, v.cs), v.addr, v.val))
	}
}

type stableVal struct {
	comp string
	cs   Sort
	addr Term
	val  Term
}

// havocAll forgets everything about the heap.
func (e *fnEnc) havocAll(st *state) {
	pi := e.pi()
	saved := e.saveStable(st, nil)
	defer e.restoreStable(st, saved)
	pi.epoch++
	for k := range st.m {
		if strings.HasPrefix(k, "Ghost.") {
			continue // ghost state is not program memory
		}
		delete(st.m, k)
	}
	st.m["!epoch"] = T(SInt, fmt.Sprint(pi.epoch))
	st.lazyFrom, st.lazyCond = nil, nil
	e.logMod("*", "x")
	na := e.freshConst("alloc@h", SInt)
	e.assert(le(st.alloc, na))
	st.alloc = na
	e.assumeGlobalInvs(st)
}

// assumeGlobalInvs assumes the package's global invariants (facts about
// package-level variables established by their initialisers) in state st.
func (e *fnEnc) assumeGlobalInvs(st *state) {
	var pkgs []string
	for p := range e.eng.globalInvs {
		pkgs = append(pkgs, p)
	}
	sort.Strings(pkgs)
	for _, ipkg := range pkgs {
	for _, inv := range e.eng.globalInvs[ipkg] {
		if !e.usesGlobalsOf(inv) {
			continue
		}
		env := &specEnv{enc: e, vars: map[string]SVal{}, st: st, old: st, pkg: ipkg}
		e.assert(e.evalBool(inv.E, env))
		e.assume("global invariant " + inv.Name + " (initialiser fact, assumed never overwritten): " + inv.Text)
	}
	}
}

type blockCtx struct {
	b     *ssa.BasicBlock
	st    *state
	reach Term
	dead  bool
}

// val returns the SMT term of an SSA value.
func (e *fnEnc) val(v ssa.Value) Term {
	if t, ok := e.vals[v]; ok {
		return t
	}
	switch v := v.(type) {
	case *ssa.Const:
		return e.constVal(v)
	case *ssa.Global:
		// address of a package-level variable
		t := e.declare("glob."+v.Pkg.Pkg.Name()+"."+v.Name(), SInt)
		if !e.declSeen["globrange."+t.S] {
			e.declSeen["globrange."+t.S] = true
			e.assertGlobal(lt(intLit(0), t))
			e.assertGlobal(le(t, e.entrySt.alloc))
		}
		e.vals[v] = t
		return t
	case *ssa.Function:
		t := e.declare("func."+canonFuncName(v.String()), SInt)
		if !e.declSeen["funcrange."+t.S] {
			e.declSeen["funcrange."+t.S] = true
			e.assertGlobal(lt(intLit(0), t))
			fname := strings.TrimSuffix(strings.TrimSuffix(canonFuncName(v.String()), "$thunk"), "$bound")
			e.assertGlobal(eq(app(SInt, e.funcidFun(), t), intLit(int64(e.eng.funcID(fname)))))
		}
		return t
	case *ssa.Builtin:
		return intLit(0)
	}
	if _, ok := e.lvals[v]; ok {
		e.fail("address %s used as a value", v.Name())
	}
	e.fail("value %s (%T) not available", v.Name(), v)
	return Term{}
}

func (e *fnEnc) constVal(c *ssa.Const) Term {
	t := c.Type()
	s := e.sortOf(t)
	if c.Value == nil {
		return e.zeroOfSort(s, t)
	}
	switch c.Value.Kind() {
	case constant.Bool:
		return boolLit(constant.BoolVal(c.Value))
	case constant.String:
		if s == SAStr {
			return e.astrLit(constant.StringVal(c.Value))
		}
		return e.strLit(constant.StringVal(c.Value))
	case constant.Int:
		bi, _ := new(big.Int).SetString(c.Value.ExactString(), 10)
		if s.IsBV() {
			return bvLit(bi, s.BVWidth())
		}
		if s == SReal {
			return realLit(bi)
		}
		return bigLit(bi)
	case constant.Float:
		if s == SReal {
			r, _ := new(big.Rat).SetString(c.Value.ExactString())
			if r != nil {
				n, d := realLit(r.Num()), realLit(r.Denom())
				return app(SReal, "/", n, d)
			}
		}
		if bi, ok := new(big.Int).SetString(c.Value.ExactString(), 10); ok {
			if s.IsBV() {
				return bvLit(bi, s.BVWidth())
			}
			return bigLit(bi)
		}
	}
	e.fail("unsupported constant %s", c)
	return Term{}
}

// envAt builds a spec environment for a program point: parameters plus local
// variables resolved by name on demand.
func (e *fnEnc) envAt(b *ssa.BasicBlock, idx int, st *state) *specEnv {
	env := e.entryEnv(st)
	env.block = b
	env.idx = idx
	return env
}

// resolveLocal finds the SSA value of source variable `name` at (b, idx):
// the closest dominating phi / DebugRef / Alloc carrying that name.
func (e *fnEnc) resolveLocal(name string, b *ssa.BasicBlock, idx int, st *state) (SVal, bool) {
	for blk := b; blk != nil; blk = blk.Idom() {
		end := len(blk.Instrs)
		if blk == b && idx < end {
			end = idx
		}
		for i := end - 1; i >= 0; i-- {
			switch in := blk.Instrs[i].(type) {
			case *ssa.Phi:
				if in.Comment == name {
					if t, ok := e.vals[in]; ok {
						return SVal{t: t, typ: in.Type()}, true
					}
				}
			case *ssa.DebugRef:
				if in.IsAddr {
					continue
				}
				if obj, ok := in.Object().(*types.Var); ok && obj.Name() == name {
					if _, isLV := e.lvals[in.X]; isLV {
						continue
					}
					if _, isConst := in.X.(*ssa.Const); !isConst {
						if _, ok := e.vals[in.X]; !ok {
							continue
						}
					}
					return SVal{t: e.val(in.X), typ: in.X.Type()}, true
				}
			case *ssa.Alloc:
				if in.Comment == name {
					if t, ok := e.vals[in]; ok {
						pt := in.Type().(*types.Pointer).Elem()
						if isStructType(pt) {
							return SVal{t: e.loadStruct(st, e.structOf(pt), t), typ: pt}, true
						}
						lv := &LValue{kind: 0, ref: t, typ: pt}
						return SVal{t: e.loadLV(st, lv), typ: pt}, true
					}
				}
			}
		}
	}
	return SVal{}, false
}

var _ = token.NoPos

// impureReason checks syntactically that a function declared `pure` only reads
// its arguments and local memory and calls pure functions.
func (e *fnEnc) impureReason() string {
	local := func(v ssa.Value) bool {
		for {
			switch x := v.(type) {
			case *ssa.Alloc:
				return true
			case *ssa.FieldAddr:
				v = x.X
			case *ssa.IndexAddr:
				v = x.X
			default:
				return false
			}
		}
	}
	for _, b := range e.fn.Blocks {
		for _, in := range b.Instrs {
			switch in := in.(type) {
			case *ssa.Store:
				if !local(in.Addr) {
					return "stores to non-local memory"
				}
			case *ssa.MapUpdate, *ssa.Go, *ssa.Send, *ssa.Defer, *ssa.Select:
				return fmt.Sprintf("contains %T", in)
			case *ssa.UnOp:
				if in.Op == token.MUL {
					if _, isG := in.X.(*ssa.Global); isG {
						return "reads a package-level variable"
					}
				}
			case *ssa.Call:
				if _, isB := in.Call.Value.(*ssa.Builtin); isB {
					continue
				}
				name, _ := e.calleeName(&in.Call)
				if c := e.eng.contracts[name]; c != nil && c.Options["pure"] != "" {
					continue
				}
				pureLib := false
				for _, pre := range []string{"strings.", "unicode.", "unicode/utf8.", "bytes.", "cmp.", "path.", "path/filepath.", "strconv.", "math/bits."} {
					if strings.HasPrefix(name, pre) {
						pureLib = true
					}
				}
				if pureLib {
					continue
				}
				return "calls " + shortCallee(name) + " which is not declared pure"
			}
		}
	}
	return ""
}

// usesGlobalsOf: the function refers to one of the package-level variables the
// invariant talks about (otherwise the invariant is irrelevant to it).
func (e *fnEnc) usesGlobalsOf(inv *Lemma) bool {
	if e.fn == nil {
		return true
	}
	key := "invuse:" + inv.Name
	if v, ok := e.invUse[key]; ok {
		return v
	}
	ids := map[string]bool{}
	collectIdents(inv.E, ids)
	used := false
	for _, b := range e.fn.Blocks {
		for _, in := range b.Instrs {
			for _, op := range in.Operands(nil) {
				if g, ok := (*op).(*ssa.Global); ok && ids[g.Name()] {
					used = true
				}
			}
		}
	}
	e.invUse[key] = used
	return used
}

func collectIdents(x Expr, out map[string]bool) {
	switch x := x.(type) {
	case *EIdent:
		out[x.Name] = true
	case *EBin:
		collectIdents(x.L, out)
		collectIdents(x.R, out)
	case *EUn:
		collectIdents(x.X, out)
	case *ECall:
		for _, a := range x.Args {
			collectIdents(a, out)
		}
	case *ESel:
		out[x.Name] = true // pkg.Global
		collectIdents(x.X, out)
	case *EIndex:
		collectIdents(x.X, out)
		collectIdents(x.I, out)
	case *ESlice:
		collectIdents(x.X, out)
	case *EQuant:
		collectIdents(x.Body, out)
	case *EOld:
		collectIdents(x.X, out)
	case *ECast:
		collectIdents(x.X, out)
	}
}

func (e *fnEnc) funcidFun() string   { return e.declareFun("funcid", []Sort{SInt}, SInt) }
func (e *fnEnc) funcrecvFun() string { return e.declareFun("funcrecv", []Sort{SInt}, SInt) }
