package main

import (
	"fmt"
	"go/constant"
	"go/types"
	"math/big"
	"strings"

	"golang.org/x/tools/go/ssa"
)

// SVal is the value of a spec expression.
type SVal struct {
	t     Term
	typ   types.Type // Go type if known
	lit   *big.Int   // untyped integer literal
	isNil bool
	fvPtr bool // closure free variable: t is the address of the variable
	tyArg types.Type
	pkgRef string // identifier names a package
	tuple  map[string]SVal // results of a pure Go function applied in a spec
}

type specEnv struct {
	enc   *fnEnc
	vars  map[string]SVal
	st    *state
	old   *state
	pkg   string
	block *ssa.BasicBlock
	idx   int
	depth int
	inOld bool
}

func (env *specEnv) with(vars map[string]SVal) *specEnv {
	n := *env
	n.vars = map[string]SVal{}
	for k, v := range env.vars {
		n.vars[k] = v
	}
	for k, v := range vars {
		n.vars[k] = v
	}
	return &n
}

func (e *fnEnc) evalBool(x Expr, env *specEnv) Term {
	v := e.evalSpec(x, env)
	if v.t.Sort != SBool {
		e.fail("spec expression %s is not boolean (sort %s)", x, v.t.Sort)
	}
	return v.t
}

func (e *fnEnc) specSort(pkg string, te TypeExpr) (Sort, types.Type) {
	if s, ok := e.eng.specTypes[te.Text]; ok {
		e.needSort(s)
		return s, nil
	}
	if te.Text == "string" {
		t := types.Typ[types.String]
		return e.sortOf(t), t
	}
	if t, ok := e.eng.lookupType(pkg, te.Text); ok {
		return e.sortOf(t), t
	}
	if t, ok := e.tpBind[te.Text]; ok {
		return e.sortOf(t), t
	}
	// a type parameter of the function under contract
	if e.fn != nil {
		sig := e.fn.Signature
		for _, tps := range []*types.TypeParamList{sig.TypeParams(), sig.RecvTypeParams()} {
			if tps == nil {
				continue
			}
			for i := 0; i < tps.Len(); i++ {
				if tps.At(i).Obj().Name() == te.Text {
					return e.sortOf(tps.At(i)), tps.At(i)
				}
			}
		}
		for _, p := range e.fn.Params {
			if tp := findTypeParam(p.Type(), te.Text, 0); tp != nil {
				return e.sortOf(tp), tp
			}
		}
	}
	e.fail("unknown type %q in spec", te.Text)
	return "", nil
}

// coerce brings two values to a common sort.
func (e *fnEnc) coerce(a, b SVal) (Term, Term) {
	if a.t.Sort == b.t.Sort && !a.isNil && !b.isNil {
		return a.t, b.t
	}
	if a.isNil && !b.isNil {
		return e.nilOf(b.t.Sort), b.t
	}
	if b.isNil && !a.isNil {
		return a.t, e.nilOf(a.t.Sort)
	}
	if a.lit != nil && b.lit == nil {
		return e.litAs(a.lit, b.t.Sort), b.t
	}
	if b.lit != nil && a.lit == nil {
		return a.t, e.litAs(b.lit, a.t.Sort)
	}
	if a.t.Sort == SInt && b.t.Sort == SReal {
		return app(SReal, "to_real", a.t), b.t
	}
	if a.t.Sort == SReal && b.t.Sort == SInt {
		return a.t, app(SReal, "to_real", b.t)
	}
	if a.t.Sort.IsBV() && b.t.Sort == SInt {
		return e.toIntS(a), b.t
	}
	if a.t.Sort == SInt && b.t.Sort.IsBV() {
		return a.t, e.toIntS(b)
	}
	if a.t.Sort.IsBV() && b.t.Sort.IsBV() {
		// different widths: compare as integers
		return e.toIntS(a), e.toIntS(b)
	}
	return a.t, b.t
}

func (e *fnEnc) toIntS(v SVal) Term {
	if v.typ != nil {
		if _, ok := types.Unalias(v.typ).Underlying().(*types.Basic); ok {
			return e.toInt(v.t, v.typ)
		}
	}
	return app(SInt, "bv2nat", v.t)
}

func (e *fnEnc) nilOf(s Sort) Term {
	switch s {
	case SIface:
		return T(SIface, "(mk-iface 0 0)")
	case SSlice:
		return T(SSlice, "(mk-slice 0 0 0 0)")
	}
	return intLit(0)
}

func (e *fnEnc) litAs(n *big.Int, s Sort) Term {
	switch {
	case s.IsBV():
		return bvLit(n, s.BVWidth())
	case s == SReal:
		return realLit(n)
	}
	return bigLit(n)
}

func (e *fnEnc) evalSpec(x Expr, env *specEnv) SVal {
	switch x := x.(type) {
	case *ENum:
		if strings.Contains(x.Text, ".") {
			return SVal{t: T(SReal, x.Text)}
		}
		bi, ok := new(big.Int).SetString(x.Text, 0)
		if !ok {
			e.fail("bad number %s", x.Text)
		}
		return SVal{t: bigLit(bi), lit: bi}
	case *EChar:
		bi := big.NewInt(x.Val)
		return SVal{t: bigLit(bi), lit: bi}
	case *EStr:
		if e.strAbstract {
			return SVal{t: e.astrLit(x.Val), typ: types.Typ[types.String]}
		}
		return SVal{t: e.strLit(x.Val), typ: types.Typ[types.String]}
	case *EIdent:
		return e.evalIdent(x.Name, env)
	case *EOld:
		n := *env
		n.inOld = true
		n.st = env.old
		return e.evalSpec(x.X, &n)
	case *EUn:
		v := e.evalSpec(x.X, env)
		switch x.Op {
		case "!":
			return SVal{t: not(v.t)}
		case "-":
			if v.lit != nil {
				n := new(big.Int).Neg(v.lit)
				return SVal{t: bigLit(n), lit: n}
			}
			if v.t.Sort.IsBV() {
				return SVal{t: app(v.t.Sort, "bvneg", v.t), typ: v.typ}
			}
			return SVal{t: app(v.t.Sort, "-", v.t), typ: v.typ}
		case "^":
			if v.t.Sort.IsBV() {
				return SVal{t: app(v.t.Sort, "bvnot", v.t), typ: v.typ}
			}
		}
		e.fail("unsupported unary %s in spec", x.Op)
	case *EBin:
		return e.evalBin(x, env)
	case *EQuant:
		if x.InStr != nil {
			// quantify over absolute positions of the backing array so that the
			// trigger (select arr j) is shared by every slice of the same string
			sv := e.evalSpec(x.InStr, env)
			if sv.t.Sort != SStr {
				e.fail("forall c in s: s must be a byte-mode string")
			}
			j := sym(fmt.Sprintf("q.j.%d", env.depth))
			arr := strArr(sv.t)
			cterm := sel(arr, T(SInt, j), SInt)
			n := env.with(map[string]SVal{x.Vars[0].Name: {t: cterm}})
			n.depth = env.depth + 1
			body := e.evalBool(x.Body, n)
			rng := and(le(strOff(sv.t), T(SInt, j)), lt(T(SInt, j), add(strOff(sv.t), strLen(sv.t))), e.byteRange(cterm))
			if x.Forall {
				return SVal{t: T(SBool, fmt.Sprintf("(forall ((%s Int)) (! (=> %s %s) :pattern (%s)))", j, rng.S, body.S, cterm.S))}
			}
			return SVal{t: T(SBool, fmt.Sprintf("(exists ((%s Int)) (and %s %s))", j, rng.S, body.S))}
		}
		vars := map[string]SVal{}
		var binders []string
		var ranges []Term
		for _, b := range x.Vars {
			s, t := e.specSort(env.pkg, b.T)
			nm := sym(fmt.Sprintf("q.%s.%d", b.Name, env.depth))
			binders = append(binders, fmt.Sprintf("(%s %s)", nm, s))
			v := SVal{t: Term{nm, s}, typ: t}
			vars[b.Name] = v
			if t != nil && s != SAStr {
				ranges = append(ranges, e.rangeOf(v.t, t))
			}
		}
		n := env.with(vars)
		n.depth = env.depth + 1
		body := e.evalBool(x.Body, n)
		rg := and(ranges...)
		q := "exists"
		if x.Forall {
			q = "forall"
			body = imp(rg, body)
		} else {
			body = and(rg, body)
		}
		if len(x.PatGroups) > 0 {
			var pats []string
			for _, g := range x.PatGroups {
				var ts []string
				for _, pe := range g {
					ts = append(ts, e.evalSpec(pe, n).t.S)
				}
				pats = append(pats, ":pattern ("+strings.Join(ts, " ")+")")
			}
			return SVal{t: T(SBool, fmt.Sprintf("(%s (%s) (! %s %s))", q, strings.Join(binders, " "), body.S, strings.Join(pats, " ")))}
		}
		return SVal{t: T(SBool, fmt.Sprintf("(%s (%s) %s)", q, strings.Join(binders, " "), body.S))}
	case *ESel:
		return e.evalSel(x, env)
	case *EIndex:
		a := e.evalSpec(x.X, env)
		i := e.evalSpec(x.I, env)
		return e.indexVal(a, i, env)
	case *ESlice:
		a := e.evalSpec(x.X, env)
		var lo, hi Term
		if x.Lo != nil {
			lo = e.intOf(e.evalSpec(x.Lo, env))
		} else {
			lo = intLit(0)
		}
		switch a.t.Sort {
		case SStr:
			if x.Hi != nil {
				hi = e.intOf(e.evalSpec(x.Hi, env))
			} else {
				hi = strLen(a.t)
			}
			return SVal{t: app(SStr, "mk-str", strArr(a.t), add(strOff(a.t), lo), sub(hi, lo)), typ: a.typ}
		case SSlice:
			if x.Hi != nil {
				hi = e.intOf(e.evalSpec(x.Hi, env))
			} else {
				hi = slLen(a.t)
			}
			return SVal{t: app(SSlice, "mk-slice", slBase(a.t), add(slOff(a.t), lo), sub(hi, lo), sub(slCap(a.t), lo)), typ: a.typ}
		}
		e.fail("slice expression on %s", a.t.Sort)
	case *ECall:
		return e.evalCall(x, env)
	case *ECast:
		v := e.evalSpec(x.X, env)
		t, ok := e.eng.lookupType(env.pkg, x.T.Text)
		if !ok {
			e.fail("unknown type %s", x.T.Text)
		}
		if v.t.Sort != SIface {
			e.fail("type assertion on non-interface")
		}
		return SVal{t: e.ifaceValue(env.st, v.t, t), typ: t}
	case *ETypeArg:
		t, ok := e.eng.lookupType(env.pkg, x.T.Text)
		if !ok {
			e.fail("unknown type %s", x.T.Text)
		}
		return SVal{tyArg: t}
	}
	e.fail("unsupported spec expression %s", x)
	return SVal{}
}

func (e *fnEnc) intOf(v SVal) Term {
	if v.t.Sort.IsBV() {
		return e.toIntS(v)
	}
	return v.t
}

func (e *fnEnc) evalIdent(name string, env *specEnv) SVal {
	if env.block != nil && !env.inOld {
		if _, isParam := e.paramVal[name]; isParam {
			// a reassigned parameter: inside the body its name means the current value
			if v, ok := e.resolveLocal(name, env.block, env.idx, env.st); ok {
				return v
			}
		}
	}
	if v, ok := env.vars[name]; ok {
		if v.fvPtr {
			pt := ptrElem(v.typ)
			if isStructType(pt) {
				return SVal{t: e.loadStruct(env.st, e.structOf(pt), v.t), typ: pt}
			}
			return SVal{t: e.loadLV(env.st, &LValue{kind: 0, ref: v.t, typ: pt}), typ: pt}
		}
		return v
	}
	switch name {
	case "true":
		return SVal{t: tTrue}
	case "false":
		return SVal{t: tFalse}
	case "nil":
		return SVal{t: intLit(0), isNil: true}
	}
	if g, ok := e.ghostVars[name]; ok {
		return SVal{t: g}
	}
	if gt, ok := e.eng.ghostVars[name]; ok {
		srt, _ := e.specSort(env.pkg, gt)
		return SVal{t: e.heapGet(env.st, "Ghost.var."+name, srt)}
	}
	if env.block != nil {
		if v, ok := e.resolveLocal(name, env.block, env.idx, env.st); ok {
			return v
		}
	}
	if txt, ok := e.eng.specConst[name]; ok {
		ex, err := parseExpr(txt)
		if err != nil {
			e.fail("spec const %s: %v", name, err)
		}
		return e.evalSpec(ex, env)
	}
	// package-level Go constant
	if v, ok := e.pkgObject(env.pkg, name, env); ok {
		return v
	}
	// package name
	if p, ok := e.eng.pkgs[env.pkg]; ok {
		for ip, imp := range p.Imports {
			if imp.Name == name {
				return SVal{pkgRef: ip}
			}
		}
	}
	for ip, p := range e.eng.pkgs {
		if p.Name == name {
			return SVal{pkgRef: ip}
		}
	}
	if t, ok := e.eng.lookupType(env.pkg, name); ok {
		return SVal{tyArg: t}
	}
	e.fail("unknown identifier %q in spec (package %s)", name, env.pkg)
	return SVal{}
}

func (e *fnEnc) pkgObject(pkg, name string, env *specEnv) (SVal, bool) {
	p, ok := e.eng.pkgs[pkg]
	if !ok || p.Types == nil {
		return SVal{}, false
	}
	obj := p.Types.Scope().Lookup(name)
	switch obj := obj.(type) {
	case *types.Const:
		return e.constSVal(obj), true
	case *types.Var:
		// global variable: read it
		sp := e.eng.prog.Package(p.Types)
		if sp == nil {
			return SVal{}, false
		}
		g, ok := sp.Members[name].(*ssa.Global)
		if !ok {
			return SVal{}, false
		}
		addr := e.val(g)
		if isStructType(obj.Type()) {
			return SVal{t: addr, typ: types.NewPointer(obj.Type())}, true
		}
		return SVal{t: e.loadLV(env.st, &LValue{kind: 0, ref: addr, typ: obj.Type()}), typ: obj.Type()}, true
	case *types.TypeName:
		return SVal{tyArg: obj.Type()}, true
	}
	return SVal{}, false
}

func (e *fnEnc) constSVal(c *types.Const) SVal {
	s := e.sortOf(c.Type())
	switch c.Val().Kind() {
	case constant.Bool:
		return SVal{t: boolLit(constant.BoolVal(c.Val())), typ: c.Type()}
	case constant.String:
		if s == SAStr {
			return SVal{t: e.astrLit(constant.StringVal(c.Val())), typ: c.Type()}
		}
		return SVal{t: e.strLit(constant.StringVal(c.Val())), typ: c.Type()}
	case constant.Int:
		bi, _ := new(big.Int).SetString(c.Val().ExactString(), 10)
		if b, ok := c.Type().Underlying().(*types.Basic); ok && b.Info()&types.IsUntyped != 0 {
			return SVal{t: bigLit(bi), lit: bi}
		}
		return SVal{t: e.litAs(bi, s), typ: c.Type()}
	}
	e.fail("unsupported constant %s", c.Name())
	return SVal{}
}

func (e *fnEnc) evalSel(x *ESel, env *specEnv) SVal {
	base := e.evalSpec(x.X, env)
	if base.pkgRef != "" {
		if v, ok := e.pkgObject(base.pkgRef, x.Name, env); ok {
			return v
		}
		e.fail("unknown %s.%s", base.pkgRef, x.Name)
	}
	if base.tuple != nil {
		if v, ok := base.tuple[x.Name]; ok {
			return v
		}
		e.fail("%s: no result named %s", x, x.Name)
	}
	if base.typ == nil {
		e.fail("field selection %s on untyped spec value", x)
	}
	return e.selectField(base, x.Name, env, x.String())
}

func (e *fnEnc) selectField(base SVal, name string, env *specEnv, what string) SVal {
	t := types.Unalias(base.typ)
	// ghost fields first (not visible to go/types)
	var st types.Type = t
	isPtr := false
	if p, ok := t.Underlying().(*types.Pointer); ok {
		st = p.Elem()
		isPtr = true
	}
	if !isStructType(st) {
		e.fail("%s: %s is not a struct", what, st)
	}
	si := e.structOf(st)
	if i := si.fieldIndex(name); i >= 0 {
		f := si.fields[i]
		if isPtr {
			if f.embStruct {
				// pointer to the embedded struct
				return SVal{t: e.embApp(si, i, base.t), typ: types.NewPointer(f.typ)}
			}
			return SVal{t: e.loadField(env.st, si, base.t, i), typ: f.typ}
		}
		return SVal{t: e.proj(si, base.t, i), typ: f.typ}
	}
	// promoted field through embedding
	obj, path, _ := types.LookupFieldOrMethod(base.typ, true, nil, name)
	if obj == nil {
		// try with package of the struct (unexported)
		if n, ok := types.Unalias(st).(*types.Named); ok && n.Obj().Pkg() != nil {
			obj, path, _ = types.LookupFieldOrMethod(base.typ, true, n.Obj().Pkg(), name)
		}
	}
	if v, ok := obj.(*types.Var); ok && v.IsField() && len(path) > 1 {
		cur := base
		for _, idx := range path {
			ct := types.Unalias(cur.typ)
			var cst types.Type = ct
			if p, ok := ct.Underlying().(*types.Pointer); ok {
				cst = p.Elem()
			}
			fname := cst.Underlying().(*types.Struct).Field(idx).Name()
			cur = e.selectField(cur, fname, env, what)
		}
		return cur
	}
	e.fail("%s: no field %s in %s", what, name, st)
	return SVal{}
}

func (e *fnEnc) indexVal(a, i SVal, env *specEnv) SVal {
	switch {
	case a.t.Sort == SStr:
		return SVal{t: strAt(a.t, e.intOf(i)), typ: nil}
	case a.t.Sort == SSlice:
		et := types.Unalias(a.typ).Underlying().(*types.Slice).Elem()
		es := e.sortOf(et)
		comp, cs := e.elemCompT(et)
		arr := sel(e.heapGet(env.st, comp, cs), slBase(a.t), ArrayOf(SInt, es))
		return SVal{t: sel(arr, add(slOff(a.t), e.intOf(i)), es), typ: et}
	case a.typ != nil:
		switch u := types.Unalias(a.typ).Underlying().(type) {
		case *types.Map:
			ks, vs := e.sortOf(u.Key()), e.sortOf(u.Elem())
			_, _, vc, vsrt := e.mapComps(ks, vs)
			k, _ := e.coerce(i, SVal{t: Term{"?", ks}})
			return SVal{t: sel(sel(e.heapGet(env.st, vc, vsrt), a.t, ArrayOf(ks, vs)), k, vs), typ: u.Elem()}
		case *types.Array:
			return SVal{t: sel(a.t, e.intOf(i), e.sortOf(u.Elem())), typ: u.Elem()}
		}
	}
	if strings.HasPrefix(string(a.t.Sort), "(Array ") {
		parts := splitSortArgs(string(a.t.Sort)[len("(Array ") : len(a.t.Sort)-1])
		k, _ := e.coerce(i, SVal{t: Term{"?", Sort(parts[0])}})
		return SVal{t: sel(a.t, k, Sort(parts[1]))}
	}
	e.fail("cannot index value of sort %s", a.t.Sort)
	return SVal{}
}

func (e *fnEnc) evalBin(x *EBin, env *specEnv) SVal {
	switch x.Op {
	case "&&":
		return SVal{t: and(e.evalBool(x.L, env), e.evalBool(x.R, env))}
	case "||":
		return SVal{t: or(e.evalBool(x.L, env), e.evalBool(x.R, env))}
	case "==>":
		return SVal{t: imp(e.evalBool(x.L, env), e.evalBool(x.R, env))}
	case "<==>":
		return SVal{t: eq(e.evalBool(x.L, env), e.evalBool(x.R, env))}
	}
	l := e.evalSpec(x.L, env)
	r := e.evalSpec(x.R, env)
	if l.tyArg != nil || r.tyArg != nil {
		e.fail("type used as value in %s", x)
	}
	// constant folding for literals
	if l.lit != nil && r.lit != nil {
		var z *big.Int
		switch x.Op {
		case "+":
			z = new(big.Int).Add(l.lit, r.lit)
		case "-":
			z = new(big.Int).Sub(l.lit, r.lit)
		case "*":
			z = new(big.Int).Mul(l.lit, r.lit)
		case "<<":
			z = new(big.Int).Lsh(l.lit, uint(r.lit.Int64()))
		case "|":
			z = new(big.Int).Or(l.lit, r.lit)
		case "&":
			z = new(big.Int).And(l.lit, r.lit)
		}
		if z != nil {
			return SVal{t: bigLit(z), lit: z}
		}
	}
	a, b := e.coerce(l, r)
	typ := l.typ
	if typ == nil || l.lit != nil {
		typ = r.typ
	}
	if a.Sort != b.Sort {
		e.fail("sort mismatch in %s: %s vs %s", x, a.Sort, b.Sort)
	}
	s := a.Sort
	switch x.Op {
	case "==", "!=":
		var t Term
		switch {
		case s == SStr:
			t = e.strEq(a, b)
		case s == SSlice && (l.isNil || r.isNil):
			t = eq(slBase(a), slBase(b))
		default:
			t = eq(a, b)
		}
		if x.Op == "!=" {
			t = not(t)
		}
		return SVal{t: t}
	case "<", "<=", ">", ">=":
		if s == SStr {
			cmp := e.strCompare(a, b)
			a, b, s = cmp, intLit(0), SInt
		}
		if s.IsBV() {
			signed := false
			if typ != nil {
				if bb, ok := types.Unalias(typ).Underlying().(*types.Basic); ok {
					_, signed, _ = intWidth(bb)
				}
			}
			f := map[string]string{"<": "lt", "<=": "le", ">": "gt", ">=": "ge"}[x.Op]
			if signed {
				return SVal{t: app(SBool, "bvs"+f, a, b)}
			}
			return SVal{t: app(SBool, "bvu"+f, a, b)}
		}
		return SVal{t: app(SBool, x.Op, a, b)}
	}
	if s.IsBV() {
		f := map[string]string{"+": "bvadd", "-": "bvsub", "*": "bvmul", "&": "bvand", "|": "bvor", "^": "bvxor", "<<": "bvshl", ">>": "bvlshr", "/": "bvudiv", "%": "bvurem"}[x.Op]
		if x.Op == "&^" {
			return SVal{t: app(s, "bvand", a, app(s, "bvnot", b)), typ: typ}
		}
		if f == "" {
			e.fail("unsupported bv op %s", x.Op)
		}
		return SVal{t: app(s, f, a, b), typ: typ}
	}
	switch x.Op {
	case "+", "-", "*":
		if s == SAStr && x.Op == "+" {
			f := e.declareFun("aconcat", []Sort{SAStr, SAStr}, SAStr)
			return SVal{t: app(SAStr, f, a, b), typ: typ}
		}
		return SVal{t: app(s, x.Op, a, b), typ: typ}
	case "/":
		if s == SReal {
			return SVal{t: app(s, "/", a, b), typ: typ}
		}
		q, _ := e.truncDiv(a, b)
		return SVal{t: q, typ: typ}
	case "%":
		_, rr := e.truncDiv(a, b)
		return SVal{t: rr, typ: typ}
	case "&", "|", "^", "&^", "<<", ">>":
		if s == SInt {
			// Int-level bit operations with a constant operand
			if cv, ok := e.constOfTerm(b); ok {
				switch x.Op {
				case "&":
					return SVal{t: e.bitAndConst(a, cv, 64), typ: typ}
				case "|":
					return SVal{t: sub(add(a, bigLit(cv)), e.bitAndConst(a, cv, 64)), typ: typ}
				case "&^":
					return SVal{t: sub(a, e.bitAndConst(a, cv, 64)), typ: typ}
				case "<<":
					return SVal{t: app(SInt, "*", a, bigLit(pow2(int(cv.Int64())))), typ: typ}
				case ">>":
					return SVal{t: app(SInt, "div", a, bigLit(pow2(int(cv.Int64())))), typ: typ}
				}
			}
			if cv, ok := e.constOfTerm(a); ok && (x.Op == "&" || x.Op == "|") {
				if x.Op == "&" {
					return SVal{t: e.bitAndConst(b, cv, 64), typ: typ}
				}
				return SVal{t: sub(add(b, bigLit(cv)), e.bitAndConst(b, cv, 64)), typ: typ}
			}
		}
	}
	e.fail("unsupported operator %s on sort %s in %s", x.Op, s, x)
	return SVal{}
}

// mentions collects called function names in an expression.
func mentions(x Expr, out map[string]bool) {
	switch x := x.(type) {
	case *EBin:
		mentions(x.L, out)
		mentions(x.R, out)
	case *EUn:
		mentions(x.X, out)
	case *ECall:
		if id, ok := x.Fun.(*EIdent); ok {
			out[id.Name] = true
		}
		for _, a := range x.Args {
			mentions(a, out)
		}
	case *ESel:
		mentions(x.X, out)
	case *EIndex:
		mentions(x.X, out)
		mentions(x.I, out)
	case *ESlice:
		mentions(x.X, out)
		if x.Lo != nil {
			mentions(x.Lo, out)
		}
		if x.Hi != nil {
			mentions(x.Hi, out)
		}
	case *EQuant:
		mentions(x.Body, out)
	case *EOld:
		mentions(x.X, out)
	case *ECast:
		mentions(x.X, out)
	}
}

func (e *fnEnc) evalCall(x *ECall, env *specEnv) SVal {
	id, ok := x.Fun.(*EIdent)
	if !ok {
		// pkg.Type(x) conversions or method-like calls are not supported
		if sel, ok := x.Fun.(*ESel); ok {
			if b := e.evalSpec(sel.X, env); b.pkgRef != "" {
				if fnName := b.pkgRef + "." + sel.Name; e.eng.contracts[fnName] != nil && e.eng.contracts[fnName].Options["pure"] != "" {
					if f := e.eng.funcs[fnName]; f != nil {
						var ats []Term
						for i, a := range x.Args {
							av := e.evalSpec(a, env)
							ps := e.sortOf(f.Params[i].Type())
							t, _ := e.coerce(av, SVal{t: Term{"?", ps}})
							ats = append(ats, t)
						}
						res := e.pureApp(fnName, f.Signature, ats)
						if len(res) == 1 {
							return SVal{t: res[0], typ: f.Signature.Results().At(0).Type()}
						}
						rn := resultNames(f.Signature)
						tup := map[string]SVal{}
						for i, r := range res {
							v := SVal{t: r, typ: f.Signature.Results().At(i).Type()}
							tup[rn[i]] = v
							tup[fmt.Sprintf("result%d", i)] = v
						}
						return SVal{tuple: tup}
					}
				}
				if sf, ok := e.eng.specFuncs[sel.Name]; ok && e.eng.specFnPkg[sel.Name] == b.pkgRef {
					var as []SVal
					for _, a := range x.Args {
						as = append(as, e.evalSpec(a, env))
					}
					return e.applySpecFunc(sf, as, env)
				}
				if t, ok := e.eng.lookupType(b.pkgRef, sel.Name); ok && len(x.Args) == 1 {
					return e.convertSVal(e.evalSpec(x.Args[0], env), t)
				}
			}
		}
		// method of a pure contracted function applied in a spec: recv.m(args)
		if sel, ok := x.Fun.(*ESel); ok {
			recv := e.evalSpec(sel.X, env)
			if recv.typ != nil {
				var fnName string
				rt := types.Unalias(recv.typ)
				if p, ok := rt.(*types.Pointer); ok {
					if n := namedName(p.Elem()); n != "" {
						fnName = "(*" + n + ")." + sel.Name
					}
				} else if n := namedName(rt); n != "" {
					fnName = "(" + n + ")." + sel.Name
				}
				if c := e.eng.contracts[canonFuncName(fnName)]; c != nil && c.Options["pure"] != "" && e.eng.funcs[canonFuncName(fnName)] == nil {
					// interface method: signature from go/types
					if obj, _, _ := types.LookupFieldOrMethod(recv.typ, true, nil, sel.Name); obj != nil {
						if mf, ok := obj.(*types.Func); ok {
							msig := mf.Type().(*types.Signature)
							ats := []Term{recv.t}
							for i, a := range x.Args {
								av := e.evalSpec(a, env)
								ps := e.sortOf(msig.Params().At(i).Type())
								t, _ := e.coerce(av, SVal{t: Term{"?", ps}})
								ats = append(ats, t)
							}
							res := e.pureApp(canonFuncName(fnName), msig, ats)
							if len(res) == 1 {
								return SVal{t: res[0], typ: msig.Results().At(0).Type()}
							}
						}
					}
				}
				if c := e.eng.contracts[fnName]; c != nil && c.Options["pure"] != "" {
					if f := e.eng.funcs[fnName]; f != nil {
						ats := []Term{recv.t}
						for i, a := range x.Args {
							av := e.evalSpec(a, env)
							ps := e.sortOf(f.Params[i+1].Type())
							t, _ := e.coerce(av, SVal{t: Term{"?", ps}})
							ats = append(ats, t)
						}
						res := e.pureApp(fnName, f.Signature, ats)
						rn := resultNames(f.Signature)
						tup := map[string]SVal{}
						for i, r := range res {
							v := SVal{t: r, typ: f.Signature.Results().At(i).Type()}
							tup[rn[i]] = v
							tup[fmt.Sprintf("result%d", i)] = v
						}
						if len(res) == 1 {
							return tup["result0"]
						}
						return SVal{tuple: tup}
					}
				}
			}
		}
		e.fail("unsupported call %s in spec", x)
	}
	args := func() []SVal {
		var out []SVal
		for _, a := range x.Args {
			out = append(out, e.evalSpec(a, env))
		}
		return out
	}
	need := func(n int) {
		if len(x.Args) != n {
			e.fail("%s expects %d arguments", id.Name, n)
		}
	}
	switch id.Name {
	case "len":
		need(1)
		a := args()[0]
		switch a.t.Sort {
		case SStr, SAStr:
			return SVal{t: strLen(a.t)}
		case SSlice:
			return SVal{t: slLen(a.t)}
		}
		if a.typ != nil {
			if at, ok := types.Unalias(a.typ).Underlying().(*types.Array); ok {
				return SVal{t: intLit(at.Len())}
			}
		}
		e.fail("len of %s", a.t.Sort)
	case "cap":
		need(1)
		return SVal{t: slCap(args()[0].t)}
	case "ite":
		need(3)
		a := args()
		t1, t2 := e.coerce(a[1], a[2])
		typ := a[1].typ
		if typ == nil {
			typ = a[2].typ
		}
		return SVal{t: ite(a[0].t, t1, t2), typ: typ}
	case "isType":
		need(2)
		a := args()
		if a[1].tyArg == nil {
			e.fail("isType(x, T): T must be a type")
		}
		return SVal{t: e.hasType(a[0].t, a[1].tyArg)}
	case "real":
		need(1)
		a := args()[0]
		if a.t.Sort == SReal {
			return a
		}
		if a.lit != nil {
			return SVal{t: realLit(a.lit)}
		}
		return SVal{t: app(SReal, "to_real", e.intOf(a))}
	case "int":
		need(1)
		a := args()[0]
		if a.t.Sort == SReal {
			return SVal{t: app(SInt, "to_int", a.t)}
		}
		return SVal{t: e.intOf(a), lit: a.lit}
	case "floor":
		need(1)
		return SVal{t: app(SInt, "to_int", args()[0].t)}
	case "is_int":
		need(1)
		return SVal{t: app(SBool, "is_int", args()[0].t)}
	case "abs":
		need(1)
		a := args()[0]
		zero := e.litAs(big.NewInt(0), a.t.Sort)
		return SVal{t: ite(app(SBool, ">=", a.t, zero), a.t, app(a.t.Sort, "-", a.t)), typ: a.typ}
	case "min", "max":
		need(2)
		a := args()
		t1, t2 := e.coerce(a[0], a[1])
		op := "<="
		if id.Name == "max" {
			op = ">="
		}
		return SVal{t: ite(app(SBool, op, t1, t2), t1, t2), typ: a[0].typ}
	case "inDom":
		need(2)
		a := args()
		mt, ok := types.Unalias(a[0].typ).Underlying().(*types.Map)
		if !ok {
			e.fail("inDom on non-map")
		}
		ks, vs := e.sortOf(mt.Key()), e.sortOf(mt.Elem())
		dc, ds, _, _ := e.mapComps(ks, vs)
		k, _ := e.coerce(a[1], SVal{t: Term{"?", ks}})
		return SVal{t: and(not(eq(a[0].t, intLit(0))), sel(sel(e.heapGet(env.st, dc, ds), a[0].t, ArrayOf(ks, SBool)), k, SBool))}
	case "iter":
		need(1)
		a := args()[0]
		comp, cs := e.iterComp(int(a.lit.Int64()))
		return SVal{t: e.heapGet(env.st, comp, cs)}
	case "fresh":
		need(1)
		a := args()[0]
		r := a.t
		if a.t.Sort == SSlice {
			r = slBase(a.t)
		} else if a.t.Sort == SIface {
			r = ifPtr(a.t)
		}
		return SVal{t: and(lt(env.old.alloc, r), le(r, env.st.alloc))}
	case "allocated":
		need(1)
		a := args()[0]
		r := a.t
		if a.t.Sort == SSlice {
			r = slBase(a.t)
		} else if a.t.Sort == SIface {
			r = ifPtr(a.t)
		}
		if a.typ != nil {
			if _, isPtr := types.Unalias(a.typ).Underlying().(*types.Pointer); isPtr && a.t.Sort == SInt {
				// interior addresses (negative): their root object is allocated
				return SVal{t: e.existsAt(r, a.typ, env.st.alloc)}
			}
		}
		return SVal{t: le(r, env.st.alloc)}
	case "same":
		// structural identity of two strings/slices: same backing array, offset and length
		need(2)
		a := args()
		if a[0].t.Sort != a[1].t.Sort {
			e.fail("same(%s, %s): different sorts %s and %s", x.Args[0], x.Args[1], a[0].t.Sort, a[1].t.Sort)
		}
		return SVal{t: eq(a[0].t, a[1].t)}
	case "joinPath":
		need(2)
		a := args()
		ss := e.sortOf(types.Typ[types.String])
		f := e.declareFun("joinPath", []Sort{ss, ss}, ss)
		return SVal{t: app(ss, f, a[0].t, a[1].t), typ: types.Typ[types.String]}
	case "lexcmp":
		need(2)
		a := args()
		return SVal{t: e.strCompare(a[0].t, a[1].t)}
	case "bytesStr":
		need(1)
		a := args()[0]
		if e.strAbstract {
			return SVal{t: e.abytes(env.st, a.t), typ: types.Typ[types.String]}
		}
		comp, cs := e.elemCompT(types.Typ[types.Uint8])
		arr := sel(e.heapGet(env.st, comp, cs), slBase(a.t), ArrayOf(SInt, SInt))
		return SVal{t: app(SStr, "mk-str", arr, slOff(a.t), slLen(a.t)), typ: types.Typ[types.String]}
	case "funcIs":
		// funcIs(fn, pkg.Name, ...): the function value is one of the named functions
		if len(x.Args) < 2 {
			e.fail("funcIs(fn, names...)")
		}
		fv := e.evalSpec(x.Args[0], env)
		var cs []Term
		for _, a := range x.Args[1:] {
			nm := qualifyFuncName(env.pkg, e.resolvePkgAlias(env.pkg, a.String()))
			cs = append(cs, eq(app(SInt, e.funcidFun(), fv.t), intLit(int64(e.eng.funcID(nm)))))
		}
		return SVal{t: or(cs...)}
	case "funcRecv":
		// funcRecv(fn, *T): the receiver bound in a method value
		a := args()
		v := SVal{t: app(SInt, e.funcrecvFun(), a[0].t)}
		if len(a) == 2 && a[1].tyArg != nil {
			v.typ = a[1].tyArg
		}
		return v
	case "ediv", "emod":
		// Euclidean division on mathematical integers (SMT-LIB div/mod)
		need(2)
		a := args()
		f := "div"
		if id.Name == "emod" {
			f = "mod"
		}
		return SVal{t: app(SInt, f, e.intOf(a[0]), e.intOf(a[1]))}
	case "baseOf":
		need(1)
		return SVal{t: slBase(args()[0].t)}
	case "tagOf":
		need(1)
		return SVal{t: ifTag(args()[0].t)}
	case "ptrOf":
		need(1)
		return SVal{t: ifPtr(args()[0].t)}
	case "allocMark":
		// the allocation counter: references <= allocMark() exist in this state
		need(0)
		return SVal{t: env.st.alloc}
	case "elemsAt":
		// elemsAt(s, b): the backing array with base b in the element heap of s's element type
		need(2)
		a := args()
		et := types.Unalias(a[0].typ).Underlying().(*types.Slice).Elem()
		es := e.sortOf(et)
		comp, cs := e.elemCompT(et)
		return SVal{t: sel(e.heapGet(env.st, comp, cs), e.intOf(a[1]), ArrayOf(SInt, es))}
	case "elems":
		// elems(s): the backing array of a slice as an SMT array (for frame specs)
		need(1)
		a := args()[0]
		et := types.Unalias(a.typ).Underlying().(*types.Slice).Elem()
		es := e.sortOf(et)
		comp, cs := e.elemCompT(et)
		return SVal{t: sel(e.heapGet(env.st, comp, cs), slBase(a.t), ArrayOf(SInt, es))}
	}
	// a pure Go function under contract, applied as a mathematical function
	if fnName := qualifyFuncName(env.pkg, id.Name); e.eng.contracts[fnName] != nil && e.eng.contracts[fnName].Options["pure"] != "" {
		if f := e.eng.funcs[fnName]; f != nil {
			var ats []Term
			for i, a := range args() {
				ps := e.sortOf(f.Params[i].Type())
				t, _ := e.coerce(a, SVal{t: Term{"?", ps}})
				ats = append(ats, t)
			}
			res := e.pureApp(fnName, f.Signature, ats)
			rn := resultNames(f.Signature)
			tup := map[string]SVal{}
			for i, r := range res {
				v := SVal{t: r, typ: f.Signature.Results().At(i).Type()}
				tup[rn[i]] = v
				tup[fmt.Sprintf("result%d", i)] = v
			}
			if len(res) == 1 {
				return tup["result0"]
			}
			return SVal{tuple: tup}
		}
	}
	// spec function?
	if sf, ok := e.eng.specFuncs[id.Name]; ok {
		return e.applySpecFunc(sf, args(), env)
	}
	// conversion to a Go type / spec sort
	if len(x.Args) == 1 {
		if t, ok := e.eng.lookupType(env.pkg, id.Name); ok {
			return e.convertSVal(args()[0], t)
		}
	}
	e.fail("unknown function %s in spec", id.Name)
	return SVal{}
}

func (e *fnEnc) convertSVal(a SVal, t types.Type) SVal {
	s := e.sortOf(t)
	if a.lit != nil {
		return SVal{t: e.litAs(a.lit, s), typ: t}
	}
	if a.t.Sort == s {
		return SVal{t: a.t, typ: t}
	}
	if a.typ != nil {
		return SVal{t: e.convert(nil, a.t, a.typ, t), typ: t}
	}
	if a.t.Sort == SInt && s.IsBV() {
		return SVal{t: app(s, fmt.Sprintf("(_ int2bv %d)", s.BVWidth()), a.t), typ: t}
	}
	if a.t.Sort.IsBV() && s == SInt {
		return SVal{t: app(SInt, "bv2nat", a.t), typ: t}
	}
	e.fail("cannot convert %s to %s", a.t.Sort, t)
	return SVal{}
}

func (e *fnEnc) applySpecFunc(sf *SpecFunc, args []SVal, env *specEnv) SVal {
	if len(args) != len(sf.Params) {
		e.fail("spec func %s expects %d arguments, got %d", sf.Name, len(sf.Params), len(args))
	}
	pkg := e.eng.specFnPkg[sf.Name]
	if pkg == "" {
		pkg = env.pkg
	}
	rs, rt := e.specSort(pkg, sf.Ret)
	recursive := false
	if sf.Body != nil {
		m := map[string]bool{}
		mentions(sf.Body, m)
		recursive = m[sf.Name]
	}
	vars := map[string]SVal{}
	var argTerms []Term
	var psorts []Sort
	for i, p := range sf.Params {
		ps, pt := e.specSort(pkg, p.T)
		a := args[i]
		t, _ := e.coerce(a, SVal{t: Term{"?", ps}})
		if a.isNil {
			t = e.nilOf(ps)
		}
		if t.Sort != ps {
			e.fail("spec func %s: argument %d has sort %s, want %s", sf.Name, i, t.Sort, ps)
		}
		if a.typ != nil && pt != nil && e.sortOf(a.typ) == ps {
			// keep the argument's own Go type (an instantiation of a generic type
			// must not be replaced by the generic declaration)
			pt = a.typ
		}
		vars[p.Name] = SVal{t: t, typ: pt}
		argTerms = append(argTerms, t)
		psorts = append(psorts, ps)
	}
	revealed := false
	for _, r := range strings.Fields(e.ctr.Options["reveal"]) {
		if r == sf.Name {
			revealed = true
		}
	}
	if sf.Opaque && revealed {
		recursive = true // declared as a function symbol plus its defining axiom
	}
	if sf.Body != nil && !recursive && !sf.Opaque {
		if env.depth > 40 {
			e.fail("spec func expansion too deep (%s)", sf.Name)
		}
		n := &specEnv{enc: e, vars: vars, st: env.st, old: env.old, pkg: pkg, depth: env.depth + 1}
		v := e.evalSpec(sf.Body, n)
		if v.lit != nil {
			v = SVal{t: e.litAs(v.lit, rs)}
		}
		if v.t.Sort != rs {
			if v.t.Sort == SInt && rs == SReal {
				v.t = app(SReal, "to_real", v.t)
			} else {
				e.fail("spec func %s: body has sort %s, declared %s", sf.Name, v.t.Sort, rs)
			}
		}
		v.typ = rt
		return v
	}
	// uninterpreted (or recursive): declare and pull in axioms
	fname := "spec." + sf.Name
	first := !e.declSeen[sym(fname)]
	f := e.declareFun(fname, psorts, rs)
	if first {
		if recursive && (!sf.Opaque || revealed) {
			// defining axiom
			var binders []string
			qvars := map[string]SVal{}
			var qargs []Term
			for i, p := range sf.Params {
				nm := sym("r." + p.Name)
				binders = append(binders, fmt.Sprintf("(%s %s)", nm, psorts[i]))
				_, pt := e.specSort(pkg, p.T)
				qvars[p.Name] = SVal{t: Term{nm, psorts[i]}, typ: pt}
				qargs = append(qargs, Term{nm, psorts[i]})
			}
			n := &specEnv{enc: e, vars: qvars, st: e.entrySt, old: e.entrySt, pkg: pkg, depth: env.depth + 1}
			body := e.evalSpec(sf.Body, n)
			bt := body.t
			if body.lit != nil {
				bt = e.litAs(body.lit, rs)
			}
			lhs := app(rs, f, qargs...)
			e.assertGlobal(T(SBool, fmt.Sprintf("(forall (%s) (! (= %s %s) :pattern (%s)))", strings.Join(binders, " "), lhs.S, bt.S, lhs.S)))
		}
		for _, ax := range e.eng.axioms {
			m := map[string]bool{}
			mentions(ax.E, m)
			if m[sf.Name] {
				e.useAxiom(ax)
			}
		}
	}
	return SVal{t: app(rs, f, argTerms...), typ: rt}
}

func (e *fnEnc) useAxiom(ax *Lemma) {
	key := "axiom." + ax.Name
	if e.declSeen[key] {
		return
	}
	e.declSeen[key] = true
	n := &specEnv{enc: e, vars: map[string]SVal{}, st: e.entrySt, old: e.entrySt, pkg: e.eng.axiomPkg[ax]}
	t := e.evalBool(ax.E, n)
	e.assertGlobal(t)
	e.assume("axiom " + ax.Name + ": " + ax.Text)
}

// resolvePkgAlias turns "apd.(*Context).Add" into "github.com/.../apd/v3.(*Context).Add"
// using the imports of pkg.
func (e *fnEnc) resolvePkgAlias(pkg, name string) string {
	name = strings.ReplaceAll(name, " ", "")
	k := strings.Index(name, ".")
	if k <= 0 || strings.Contains(name[:k], "/") || strings.HasPrefix(name, "(") {
		return name
	}
	alias := name[:k]
	if p, ok := e.eng.pkgs[pkg]; ok {
		for ip, imp := range p.Imports {
			if imp.Name == alias {
				return ip + name[k:]
			}
		}
	}
	for ip, p := range e.eng.pkgs {
		if p.Name == alias {
			return ip + name[k:]
		}
	}
	return name
}

// findTypeParam searches a type for a type parameter with the given name.
func findTypeParam(t types.Type, name string, depth int) *types.TypeParam {
	if depth > 4 {
		return nil
	}
	switch x := types.Unalias(t).(type) {
	case *types.TypeParam:
		if x.Obj().Name() == name {
			return x
		}
	case *types.Pointer:
		return findTypeParam(x.Elem(), name, depth+1)
	case *types.Slice:
		return findTypeParam(x.Elem(), name, depth+1)
	case *types.Named:
		if ta := x.TypeArgs(); ta != nil {
			for i := 0; i < ta.Len(); i++ {
				if tp := findTypeParam(ta.At(i), name, depth+1); tp != nil {
					return tp
				}
			}
		}
	case *types.Map:
		if tp := findTypeParam(x.Key(), name, depth+1); tp != nil {
			return tp
		}
		return findTypeParam(x.Elem(), name, depth+1)
	}
	return nil
}
