package main

import (
	"encoding/json"
	"io"
	"flag"
	"fmt"
	"os"
	"path/filepath"
	"sort"
	"strconv"
	"strings"
	"time"
)

// PropConfig is /verif/props/<id>.json.
type PropConfig struct {
	ID        string   `json:"id"`
	Packages  []string `json:"packages"`
	Specs     []string `json:"specs"`     // external spec files (relative to /verif)
	Functions []string `json:"functions"` // canonical names (module prefix may be omitted)
	Lemmas    []string `json:"lemmas"`
	Sweep     []string `json:"sweep"` // functions checked without a contract: safety obligations only
	Scope     string   `json:"scope"`      // what the contracts carry
	NotCovered []string `json:"not_covered"`
	Trusted   []string `json:"trusted_base"`
	Bounded   []BoundedCheck `json:"bounded"`
	Replay    string   `json:"replay"` // adapter family
}

type BoundedCheck struct {
	Name  string `json:"name"`
	Lemma string `json:"lemma"`
	Bound string `json:"bound"`
}

type KnownFinding struct {
	Property   string `json:"property"`
	Obligation string `json:"obligation"`
	Class      string `json:"class"`  // SMT predicate (over the obligation's constants) describing exactly the failing inputs
	Witness    string `json:"witness"`
	Status     string `json:"status"` // "known" or "fixed"
	Note       string `json:"note"`
}

type oblReport struct {
	Name    string  `json:"name"`
	Kind    string  `json:"kind"`
	Func    string  `json:"function"`
	Result  string  `json:"result"`
	Backend string  `json:"backend,omitempty"`
	SolverS float64 `json:"solver_s"`
	Verdict string  `json:"verdict"`
	Src     string  `json:"clause,omitempty"`
}

var verifDir = "/verif"

func fullFuncName(n string) string {
	// "cue/token.searchInts" -> "cuelang.org/go/cue/token.searchInts"; "(*cue/token.File).Offset" likewise
	if strings.Contains(n, repoModule) {
		return n
	}
	if strings.HasPrefix(n, "(*") {
		return "(*" + qualifyRepo(n[2:])
	}
	if strings.HasPrefix(n, "(") {
		return "(" + qualifyRepo(n[1:])
	}
	return qualifyRepo(n)
}

func qualifyRepo(n string) string {
	first := n
	if i := strings.IndexAny(n, "/."); i >= 0 {
		first = n[:i]
	}
	switch first {
	case "cue", "internal", "mod", "tools", "pkg", "encoding", "cmd", "cuego":
		return repoModule + "/" + n
	}
	return n
}

func checkCmd(args []string) {
	fs := flag.NewFlagSet("check", flag.ExitOnError)
	prop := fs.String("prop", "", "property id")
	tier := fs.String("tier", "", "quick|thorough")
	updateBaseline := fs.Bool("update-baseline", false, "rewrite the baseline from this run (development only)")
	repo := fs.String("repo", "/repo", "repository")
	verbose := fs.Bool("v", false, "verbose")
	noEv := fs.Bool("no-evidence", false, "do not rewrite the evidence file (used when evaluating seeded changes)")
	outName := fs.String("out", "", "name of the scratch directory under /verif/out (default: the property id)")
	fs.Parse(args)
	outOverride = *outName
	if *tier == "" {
		*tier = os.Getenv("VERIF_TIER")
	}
	if *tier == "" {
		*tier = "quick"
	}
	seed, _ := strconv.Atoi(os.Getenv("VERIF_SEED"))
	code, _ := runCheck(*prop, *tier, seed, *repo, nil, *updateBaseline, *verbose, os.Stdout, !*noEv)
	if *tier == "thorough" && code == 0 {
		// thorough tier: must-fail / must-pass self-test of the machinery on in-memory mutants
		if st := runSelftest(*prop, *repo, os.Stdout, ""); st != 0 {
			fmt.Println("selftest failed: the machinery did not behave as expected on its mutant corpus (not a property violation)")
			os.Exit(3)
		}
	}
	os.Exit(code)
}

type checkOutcome struct {
	Violations []string
	Known      []string
	Undecided  []string
	Reports    []oblReport
}

func loadPropConfig(id string) (*PropConfig, error) {
	data, err := os.ReadFile(filepath.Join(verifDir, "props", id+".json"))
	if err != nil {
		return nil, err
	}
	var cfg PropConfig
	if err := json.Unmarshal(data, &cfg); err != nil {
		return nil, fmt.Errorf("props/%s.json: %v", id, err)
	}
	return &cfg, nil
}

func loadKnownFindings() []KnownFinding {
	var out []KnownFinding
	data, err := os.ReadFile(filepath.Join(verifDir, "known_findings.json"))
	if err != nil {
		return nil
	}
	var f struct {
		Findings []KnownFinding `json:"findings"`
	}
	if json.Unmarshal(data, &f) == nil {
		out = f.Findings
	}
	return out
}

func loadBaseline(id string) map[string]bool {
	out := map[string]bool{}
	data, err := os.ReadFile(filepath.Join(verifDir, "baseline", id+".obligations"))
	if err != nil {
		return out
	}
	for _, l := range strings.Split(string(data), "\n") {
		l = strings.TrimSpace(l)
		if l != "" && !strings.HasPrefix(l, "#") {
			out[l] = true
		}
	}
	return out
}


// shapeOf: what the anchoring of a function's contract depends on besides the code's
// meaning — the number of loops (loop clauses are keyed by ordinal) and the set of
// callees without a contract (each havocs the heap). If either changed since the
// baseline was taken, a failed obligation of that function is first of all a contract
// that needs re-anchoring or a callee that needs a contract: undecided, not an alarm
// (a failed proof is a violation only when the code, not the annotation, moved).
// safetyOnly keeps the obligations of a function checked without a contract:
// index and slice bounds, division by zero, writes to a nil map, explicit
// panics, and the preconditions of contracted callees. Frame conditions and
// covers mean nothing without a contract.
func safetyOnly(obls []*Obligation) []*Obligation {
	var out []*Obligation
	for _, o := range obls {
		if o.Cover {
			continue
		}
		switch o.Kind {
		case "bounds", "div", "nil", "panic", "pre":
			if strings.Contains(o.Name, "varargs") {
				continue // the argument array of a variadic call: trivially in range
			}
			out = append(out, o)
		}
	}
	return out
}

func shapeOf(enc *fnEnc) (loops int, uncontracted []string) {
	loops = len(enc.loops)
	for a := range enc.assumptions {
		const pre = "uncontracted call havocs the heap: "
		if strings.HasPrefix(a, pre) {
			rest := a[len(pre):]
			if k := strings.Index(rest, " in "); k >= 0 {
				rest = rest[:k]
			}
			uncontracted = append(uncontracted, rest)
		}
	}
	sort.Strings(uncontracted)
	return
}

func loadShapes(id string) map[string]string {
	out := map[string]string{}
	data, err := os.ReadFile(filepath.Join(verifDir, "baseline", id+".obligations"))
	if err != nil {
		return out
	}
	for _, l := range strings.Split(string(data), "\n") {
		if strings.HasPrefix(l, "#shape ") {
			f := strings.SplitN(l[len("#shape "):], "\t", 2)
			if len(f) == 2 {
				out[f[0]] = f[1]
			}
		}
	}
	return out
}

func shapeString(loops int, unc []string) string {
	return fmt.Sprintf("loops=%d uncontracted=%s", loops, strings.Join(unc, ","))
}

// shapeChange compares a function's shape with the baseline's; "" if compatible.
func shapeChange(base string, loops int, unc []string) string {
	if base == "" {
		return ""
	}
	var bl int
	var bu string
	fmt.Sscanf(base, "loops=%d", &bl)
	if k := strings.Index(base, "uncontracted="); k >= 0 {
		bu = base[k+len("uncontracted="):]
	}
	if bl != loops && loops > 0 {
		// (with no loop left there is nothing a loop clause could be mis-anchored on:
		// the clauses are orphans and the postconditions decide)
		return fmt.Sprintf("the function has %d loops, its contract was anchored on %d", loops, bl)
	}
	have := map[string]bool{}
	for _, u := range strings.Split(bu, ",") {
		have[u] = true
	}
	var fresh []string
	for _, u := range unc {
		if !have[u] {
			fresh = append(fresh, u)
		}
	}
	if len(fresh) > 0 {
		return "new callee without a contract: " + strings.Join(fresh, ", ")
	}
	return ""
}

// newCallees extracts the callee names from a shapeChange reason ("" for a loop change).
func newCallees(why string) []string {
	const pre = "new callee without a contract: "
	if !strings.HasPrefix(why, pre) {
		return nil
	}
	return strings.Split(why[len(pre):], ", ")
}

// optimisticStatus re-encodes the function of obligation o with the given callees
// treated as heap-neutral and solves the obligation of the same name ("" if absent).
var optEncs = map[string]*fnEnc{}

func optimisticStatus(eng *Engine, o *Obligation, callees []string, outDir string, timeout time.Duration) string {
	key := o.Func + "|" + strings.Join(callees, ",")
	enc, ok := optEncs[key]
	if !ok {
		eng.neutralExtra = map[string]bool{}
		for _, c := range callees {
			eng.neutralExtra[c] = true
		}
		var err error
		enc, err = eng.EncodeFunc(o.Func)
		eng.neutralExtra = nil
		if err != nil {
			enc = nil
		}
		optEncs[key] = enc
	}
	if enc == nil {
		return ""
	}
	for _, o2 := range enc.obls {
		if o2.Name == o.Name {
			var r SolveResult
			if len(o2.Cases) > 0 {
				r = solveCases(o2, outDir, 3*timeout)
			} else {
				r = Solve(o2.Script(true), outDir, o2.Name+".optimistic", 3*timeout, nil)
			}
			return r.Status
		}
	}
	return ""
}

// runCheck runs one property check. overlay (may be nil) replaces files in memory (self-test mutants).
var outOverride, curOutDir string

// forceLastResort: the self-test sets it for must-pass mutants (a slow machine must not
// turn a harmless change into an alarm)
var forceLastResort bool

func runCheck(id, tier string, seed int, repo string, overlay map[string][]byte, updateBaseline, verbose bool, w io.Writer, evidence bool) (int, *checkOutcome) {
	noEvidence = !evidence
	outcome := &checkOutcome{}
	start := time.Now()
	cfg, err := loadPropConfig(id)
	if err != nil {
		fmt.Fprintln(w, "config error:", err)
		return 2, outcome
	}
	timeout := 10 * time.Second
	if tier == "thorough" {
		timeout = 60 * time.Second
	}
	eng := NewEngine(repo)
	eng.Overlay = overlay
	if err := eng.Load(cfg.Packages); err != nil {
		// the tree does not compile: nothing can be decided
		fmt.Fprintln(w, "UNDECIDED load-error:", err)
		writeEvidence(cfg, tier, seed, nil, nil, []string{"load error: " + err.Error()}, nil, time.Since(start).Seconds(), eng, 0, 0)
		outcome.Undecided = append(outcome.Undecided, "load error: "+err.Error())
		return 2, outcome
	}
	var specs []string
	for _, s := range cfg.Specs {
		specs = append(specs, filepath.Join(verifDir, s))
	}
	if err := eng.LoadContracts(specs); err != nil {
		fmt.Fprintln(w, "contract error:", err)
		return 2, outcome
	}
	baseline := loadBaseline(id)
	outDir := filepath.Join(verifDir, "out", id)
	if noEvidence {
		outDir = filepath.Join(verifDir, "out", "selftest", id)
	}
	if outOverride != "" {
		outDir = filepath.Join(verifDir, "out", outOverride)
	}
	curOutDir = outDir
	os.RemoveAll(outDir)
	os.MkdirAll(outDir, 0o755)

	var obls []*Obligation
	var undecided []string
	encs := map[string]*fnEnc{}
	var fnames []string
	skipped := map[string]bool{}
	shapesBase := loadShapes(id)
	shapesNow := map[string]string{}
	shapeChanged := map[string]string{}
	sweepFn := map[string]bool{}
	for _, f := range cfg.Sweep {
		sweepFn[fullFuncName(f)] = true
	}
	for _, f := range append(append([]string{}, cfg.Functions...), cfg.Sweep...) {
		name := fullFuncName(f)
		fnames = append(fnames, name)
		if eng.funcs[name] == nil {
			undecided = append(undecided, "orphan: function "+f+" not found")
			fmt.Fprintf(w, "UNDECIDED orphan function=%s\n", f)
			continue
		}
		if overlay != nil {
			// self-test mutant: only the functions whose body is in a mutated file can
			// change verdict (every other function sees the mutated ones by contract)
			fn := eng.funcs[name]
			file := fn.Prog.Fset.Position(fn.Pos()).Filename
			if _, mutated := overlay[file]; !mutated && file != "" {
				// (a synthetic package initialiser has no position: always re-verified)
				skipped[name] = true
				continue
			}
		}
		if c := eng.contracts[name]; c == nil && !sweepFn[name] {
			undecided = append(undecided, "no contract for "+f)
			fmt.Fprintf(w, "UNDECIDED no-contract function=%s\n", f)
			continue
		}
		enc, err := eng.EncodeFunc(name)
		if err != nil {
			undecided = append(undecided, fmt.Sprintf("%s: %v", f, err))
			fmt.Fprintf(w, "UNDECIDED %s: %v\n", f, err)
			continue
		}
		encs[name] = enc
		if sweepFn[name] {
			// safety sweep: the function has no contract; only what must hold for
			// it not to crash is an obligation (and the preconditions of the
			// contracted functions it calls)
			for _, o := range safetyOnly(enc.obls) {
				// outside a baseline update only the obligations that discharged on the
				// unchanged tree are run: the others claim nothing and would each cost
				// a full time-out on three solvers
				if updateBaseline || baseline[o.Name] {
					obls = append(obls, o)
				}
			}
		} else {
			obls = append(obls, enc.obls...)
		}
		{
			l, u := shapeOf(enc)
			shapesNow[name] = shapeString(l, u)
			if why := shapeChange(shapesBase[name], l, u); why != "" && !updateBaseline {
				shapeChanged[name] = why
			}
		}
		for _, oc := range enc.orphanClauses {
			undecided = append(undecided, "orphan: "+oc)
			fmt.Fprintf(w, "UNDECIDED orphan %s\n", oc)
		}
	}
	// lemmas
	lemmas := cfg.Lemmas
	if overlay != nil {
		lemmas = nil // lemmas do not depend on function bodies
	}
	lemObls, lerr := eng.LemmaObligations(lemmas)
	for _, e := range lerr {
		undecided = append(undecided, e)
		fmt.Fprintln(w, "UNDECIDED", e)
	}
	obls = append(obls, lemObls...)

	// covers are only run in the thorough tier, except the requires-cover
	var run []*Obligation
	for _, o := range obls {
		run = append(run, o)
	}
	results := SolveAll(run, outDir, timeout, 6, false)

	// escalate unknown/timeouts of baseline obligations once with a longer timeout
	var retry []*Obligation
	for _, o := range run {
		r := results[o]
		if !o.Cover && (r.Status == "unknown" || r.Status == "timeout") && baseline[o.Name] {
			retry = append(retry, o)
		}
	}
	if len(retry) > 0 {
		r2 := SolveAll(retry, outDir, 5*timeout, 4, true)
		var retry2 []*Obligation
		for o, r := range r2 {
			results[o] = r
			if r.Status == "unknown" || r.Status == "timeout" {
				retry2 = append(retry2, o)
			}
		}
		// last resort (a loaded machine must not turn into an alarm): 20x, two at a time
		if len(retry2) > 0 && len(retry2) <= 4 && (overlay == nil || forceLastResort) {
			for o, r := range SolveAll(retry2, outDir, 10*timeout, 2, true) {
				results[o] = r
			}
		}
	}

	known := loadKnownFindings()
	var reports []oblReport
	var violations, knownLines []string
	discharged, counted := 0, 0
	var solverTotal float64
	seen := map[string]bool{}
	var samples []any
	for _, o := range run {
		r := results[o]
		seen[o.Name] = true
		solverTotal += r.Seconds
		rep := oblReport{Name: o.Name, Kind: o.Kind, Func: o.Func, Result: r.Status, Backend: r.Backend, SolverS: round3(r.Seconds), Src: o.Src}
		inBase := baseline[o.Name]
		switch {
		case o.Cover:
			if r.Status == "sat" {
				rep.Verdict = "cover-ok"
			} else if r.Status == "unsat" {
				rep.Verdict = "VACUOUS"
				undecided = append(undecided, "vacuous: "+o.Name)
				fmt.Fprintf(w, "UNDECIDED cover-lost %s\n", o.Name)
			} else {
				rep.Verdict = "cover-undecided"
			}
		case r.Status == "unsat":
			rep.Verdict = "discharged"
			if inBase || updateBaseline {
				discharged++
				counted++
			} else {
				rep.Verdict = "discharged-not-in-baseline"
			}
		default:
			// failed or undecided
			if inBase || updateBaseline {
				counted++
			}
			kf := matchKnown(known, id, o, r, outDir, timeout)
			why, shaped := shapeChanged[o.Func]
			if o.Kind == "guarded" {
				// lock-discipline obligations depend on the ghost lock state only, which no
				// call havocs: a new callee or loop cannot make them fail
				shaped = false
			}
			switch {
			case kf != nil:
				rep.Verdict = "known-finding"
				knownLines = append(knownLines, fmt.Sprintf("KNOWN-FINDING: property=%s %s %s", id, o.Name, kf.Witness))
				if inBase || updateBaseline {
					counted-- // not part of the proof claim
				}
			case inBase && shaped:
				// the anchoring of the contract moved (see shapeOf). A new callee without a
				// contract havocs the heap: the obligation is re-derived under the optimistic
				// reading (the new callees change nothing, results unconstrained); if it fails
				// there too, the havoc is not what broke it. Otherwise only a reproduced
				// counterexample is a violation.
				path, reproduced := writeReplay(id, o, r, eng, cfg)
				if !reproduced && len(newCallees(why)) > 0 {
					if st := optimisticStatus(eng, o, newCallees(why), outDir, timeout); st != "unsat" && st != "" {
						why += "; fails as well when the new callees are taken to change nothing (" + st + ")"
						rep.Verdict = "VIOLATION"
						violations = append(violations, fmt.Sprintf("VIOLATION property=%s replay=%s no-failing-input-found", id, path))
						fmt.Fprintf(w, "  (%s: %s)\n", o.Name, why)
						break
					}
				}
				if reproduced {
					rep.Verdict = "VIOLATION"
					violations = append(violations, fmt.Sprintf("VIOLATION property=%s replay=%s", id, path))
				} else {
					rep.Verdict = "undecided-shape-changed"
					undecided = append(undecided, fmt.Sprintf("shape changed (%s): %s", why, o.Name))
					fmt.Fprintf(w, "UNDECIDED shape-changed %s: %s (replay=%s)\n", o.Name, why, path)
				}
			case inBase && r.Status == "sat":
				path, reproduced := writeReplay(id, o, r, eng, cfg)
				suffix := ""
				if !reproduced {
					suffix = " no-failing-input-found"
				}
				rep.Verdict = "VIOLATION"
				violations = append(violations, fmt.Sprintf("VIOLATION property=%s replay=%s%s", id, path, suffix))
			case inBase:
				path, reproduced := writeReplay(id, o, r, eng, cfg)
				suffix := " no-failing-input-found"
				if reproduced {
					suffix = ""
				}
				rep.Verdict = "VIOLATION"
				violations = append(violations, fmt.Sprintf("VIOLATION property=%s replay=%s%s", id, path, suffix))
			case r.Status == "sat":
				path, reproduced := writeReplay(id, o, r, eng, cfg)
				if reproduced {
					rep.Verdict = "VIOLATION"
					violations = append(violations, fmt.Sprintf("VIOLATION property=%s replay=%s", id, path))
				} else {
					rep.Verdict = "undecided-new-obligation"
					undecided = append(undecided, "new obligation fails (sat, not reproduced): "+o.Name)
					fmt.Fprintf(w, "UNDECIDED new-obligation %s (sat; replay=%s)\n", o.Name, path)
				}
			default:
				rep.Verdict = "undecided"
				undecided = append(undecided, fmt.Sprintf("not in baseline, %s: %s", r.Status, o.Name))
				if verbose {
					fmt.Fprintf(w, "UNDECIDED %s %s\n", r.Status, o.Name)
				}
			}
		}
		reports = append(reports, rep)
		if len(samples) < 4 && !o.Cover && rep.Verdict == "discharged" {
			samples = append(samples, map[string]any{"obligation": o.Name, "clause": o.Src, "smt_bytes": len(o.Script(false)), "backend": r.Backend, "solver_s": round3(r.Seconds)})
		}
		if verbose {
			fmt.Fprintf(w, "%-26s %-70s %-8s %-10s %.2fs\n", rep.Verdict, o.Name, r.Status, r.Backend, r.Seconds)
		}
	}
	// baseline obligations that no longer exist
	var orphans []string
	for n := range baseline {
		if !seen[n] {
			if overlay != nil {
				isSkipped := strings.HasPrefix(n, "lemma")
				for k := 0; k < len(n) && !isSkipped; k++ {
					if n[k] == '#' && (skipped[n[:k]] || skipped[fullFuncName(n[:k])]) {
						isSkipped = true
					}
				}
				if isSkipped {
					continue
				}
			}
			orphans = append(orphans, n)
		}
	}
	sort.Strings(orphans)
	for _, n := range orphans {
		fmt.Fprintf(w, "UNDECIDED orphan obligation=%s\n", n)
		undecided = append(undecided, "orphan obligation: "+n)
	}
	if updateBaseline {
		var names []string
		for _, o := range run {
			if !o.Cover && results[o].Status == "unsat" {
				names = append(names, o.Name)
			}
		}
		sort.Strings(names)
		nObl := len(names)
		var shapeNames []string
		for f := range shapesNow {
			shapeNames = append(shapeNames, f)
		}
		sort.Strings(shapeNames)
		for _, f := range shapeNames {
			names = append(names, "#shape "+f+"\t"+shapesNow[f])
		}
		os.MkdirAll(filepath.Join(verifDir, "baseline"), 0o755)
		os.WriteFile(filepath.Join(verifDir, "baseline", id+".obligations"), []byte(strings.Join(names, "\n")+"\n"), 0o644)
		fmt.Fprintf(w, "baseline updated: %d obligations\n", nObl)
	}
	for _, l := range knownLines {
		fmt.Fprintln(w, l)
	}
	for _, v := range violations {
		fmt.Fprintln(w, v)
	}
	wall := time.Since(start).Seconds()
	writeEvidence(cfg, tier, seed, reports, samples, undecided, violations, wall, eng, counted+len(orphans), discharged)
	writeFuncEvidence(cfg, encs, fnames, eng, solverTotal)
	fmt.Fprintf(w, "property %s: %d obligations (%d in baseline), %d discharged, %d violations, %d known findings, %d undecided, %.1fs\n",
		id, len(run), len(baseline), discharged, len(violations), len(knownLines), len(undecided), wall)
	outcome.Violations, outcome.Known, outcome.Undecided, outcome.Reports = violations, knownLines, undecided, reports
	if len(violations) > 0 {
		return 1, outcome
	}
	return 0, outcome
}

var noEvidence bool

func round3(f float64) float64 { return float64(int(f*1000+0.5)) / 1000 }

// matchKnown: is the failure exactly a listed known finding? The obligation is
// re-solved with the negation of the finding's input class; unsat means every
// failing input is in the class.
func matchKnown(known []KnownFinding, id string, o *Obligation, r SolveResult, outDir string, timeout time.Duration) *KnownFinding {
	for i := range known {
		k := &known[i]
		if k.Property != id || k.Obligation != o.Name || k.Status == "fixed" {
			continue
		}
		if k.Class == "" {
			continue
		}
		o2 := *o
		o2.Extra = append([]string{}, o.Extra...)
		o2.Extra = append(o2.Extra, "(not "+k.Class+")")
		res := Solve(o2.Script(true), outDir, o.Name+".notclass", timeout, nil)
		if res.Status == "unsat" {
			return k
		}
	}
	return nil
}

type evidenceFile struct {
	PropertyID  string         `json:"property_id"`
	Tier        string         `json:"tier"`
	Seed        int            `json:"seed"`
	Level       string         `json:"level"`
	Coverage    map[string]any `json:"coverage"`
	Assumptions []string       `json:"assumptions"`
	WallS       float64        `json:"wall_s"`
	Violations  int            `json:"violations"`
}

var lastEvidence *evidenceFile

func writeEvidence(cfg *PropConfig, tier string, seed int, reports []oblReport, samples []any, undecided, violations []string, wall float64, eng *Engine, obligations, discharged int) {
	ev := &evidenceFile{PropertyID: cfg.ID, Tier: tier, Seed: seed, WallS: round3(wall), Violations: len(violations)}
	cov := map[string]any{}
	ev.Coverage = cov
	cov["obligations"] = obligations
	cov["discharged"] = discharged
	cov["checker_cmd"] = fmt.Sprintf("/verif/bin/govc check -prop %s -tier %s (VC generation over go/ssa of /repo's working tree with -tags verif; z3 5.1.0, z3 4.8.12 and cvc5 1.0 raced per obligation)", cfg.ID, tier)
	cov["trusted_base"] = cfg.Trusted
	cov["scope"] = cfg.Scope
	cov["not_covered"] = cfg.NotCovered
	cov["per_obligation"] = reports
	cov["undecided"] = undecided
	if len(samples) == 0 {
		samples = []any{"no obligation discharged in this run"}
	}
	cov["samples"] = samples
	var bounded []any
	for _, b := range cfg.Bounded {
		bounded = append(bounded, map[string]any{"name": b.Name, "lemma": b.Lemma, "bound": b.Bound, "note": "bounded stand-in; never counted in discharged"})
	}
	cov["bounded"] = bounded
	backends := map[string]int{}
	var solverTotal float64
	for _, r := range reports {
		if r.Backend != "" {
			backends[r.Backend]++
		}
		solverTotal += r.SolverS
	}
	cov["backends"] = backends
	cov["solver_s_total"] = round3(solverTotal)
	if obligations > 0 && discharged == obligations && len(violations) == 0 && len(undecidedBlocking(undecided)) == 0 {
		ev.Level = "proof"
	} else {
		ev.Level = "other"
		why := fmt.Sprintf("not a proof on this run: %d of %d baseline obligations discharged, %d violations, undecided: %s", discharged, obligations, len(violations), strings.Join(undecided, "; "))
		cov["explanation"] = why
		cov["evaluations"] = max(1, len(reports))
		cov["distinct_nontrivial"] = max(2, discharged)
	}
	ev.Assumptions = nil
	lastEvidence = ev
	flushEvidence()
}

// undecidedBlocking: entries that prevent calling the run a proof.
func undecidedBlocking(u []string) []string {
	var out []string
	for _, s := range u {
		if strings.HasPrefix(s, "not in baseline") {
			continue // Tier-B obligations are listed but not part of the claim
		}
		out = append(out, s)
	}
	return out
}

func flushEvidence() {
	if lastEvidence == nil || noEvidence {
		return
	}
	os.MkdirAll(filepath.Join(verifDir, "evidence"), 0o755)
	data, _ := json.MarshalIndent(lastEvidence, "", " ")
	os.WriteFile(filepath.Join(verifDir, "evidence", lastEvidence.PropertyID+".json"), data, 0o644)
}

func writeFuncEvidence(cfg *PropConfig, encs map[string]*fnEnc, fnames []string, eng *Engine, solverTotal float64) {
	if lastEvidence == nil {
		return
	}
	var funcs []any
	assume := map[string]bool{}
	for _, n := range fnames {
		st := "V (verified against its body)"
		for _, f := range cfg.Sweep {
			if fullFuncName(f) == n {
				st = "S (safety sweep against its body, no contract: index/slice bounds, division, nil map, explicit panic, callee preconditions)"
			}
		}
		if encs[n] == nil {
			st = "undecided (not encoded on this run)"
		} else {
			for a := range encs[n].assumptions {
				assume[a] = true
			}
		}
		funcs = append(funcs, map[string]string{"function": strings.ReplaceAll(n, repoModule+"/", ""), "status": st})
	}
	var names []string
	for n, c := range eng.contracts {
		if c.Assumed {
			names = append(names, n)
		}
	}
	sort.Strings(names)
	for _, n := range names {
		c := eng.contracts[n]
		kind := "A-ext"
		if strings.Contains(n, repoModule) {
			kind = "A-int"
		}
		used := false
		for a := range assume {
			if strings.Contains(a, shortCallee(n)) {
				used = true
			}
		}
		if used {
			funcs = append(funcs, map[string]string{"function": strings.ReplaceAll(n, repoModule+"/", ""), "status": kind + " (assumed contract: " + c.AssumeWhy + ")"})
		}
	}
	lastEvidence.Coverage["functions_under_contract"] = funcs
	var as []string
	for a := range assume {
		as = append(as, a)
	}
	sort.Strings(as)
	as = append(as,
		"VC generator /verif/govc and its memory model (per-field heap arrays, slices as (base,off,len,cap), interfaces as (tag,ptr)) are trusted",
		"go/ssa (x/tools v0.48.0) builds the SSA from the files `go build -tags verif` compiles; goroutine interleavings, bodies of callees (only contracts), reflection/unsafe, memory exhaustion, stack depth and termination (unless a decreases clause is present) are dropped by the extraction",
		"SMT solvers z3 5.1.0 / z3 4.8.12 / cvc5 1.0 are trusted (first definite answer wins)")
	lastEvidence.Assumptions = as
	flushEvidence()
}

// writeReplay writes the replay file of a failed obligation and tries the family adapter.
func writeReplay(id string, o *Obligation, r SolveResult, eng *Engine, cfg *PropConfig) (string, bool) {
	dir := filepath.Join(verifDir, "out", "replay", id)
	if noEvidence {
		dir = filepath.Join(verifDir, "out", "selftest", "replay", id)
	}
	os.MkdirAll(dir, 0o755)
	path := filepath.Join(dir, sanitizeFile(o.Name)+".json")
	smt := filepath.Join(curOutDir, sanitizeFile(o.Name)+".smt2")
	rp := map[string]any{
		"property":   id,
		"obligation": o.Name,
		"function":   o.Func,
		"clause":     o.Src,
		"clause_at":  o.Pos,
		"smt_script": smt,
		"solver":     r.Backend,
		"status":     r.Status,
		"all":        r.All,
		"model":      trimModel(r.Model, o),
		"solver_output": firstLines(r.Output, 400),
	}
	reproduced := false
	if r.Status == "sat" || r.CandidateModel {
		// a candidate model (found with the quantified background axioms dropped) is only
		// an input to try: tryReplay accepts it solely on the evidence of the real run
		if test, out, ok := tryReplay(id, o, r, eng, cfg); test != "" {
			rp["replay_test"] = test
			rp["replay_output"] = out
			rp["replay_dir"], rp["replay_pkg"], rp["replay_expect"] = lastReplayDir, lastReplayPkg, lastReplayExpect
			reproduced = ok
		}
	}
	rp["candidate_model"] = r.CandidateModel
	rp["reproduced_on_real_code"] = reproduced
	data, _ := json.MarshalIndent(rp, "", " ")
	os.WriteFile(path, data, 0o644)
	return path, reproduced
}

// trimModel keeps the part of the model about parameters and SSA values.
func trimModel(m string, o *Obligation) map[string]string {
	out := map[string]string{}
	vals := parseModel(m)
	for k, v := range vals {
		if strings.HasPrefix(k, "p.") || strings.HasPrefix(k, "v.") || strings.HasPrefix(k, "reach.") || strings.HasPrefix(k, "q.") || strings.HasPrefix(k, "call.") {
			if len(v) < 300 {
				out[k] = v
			}
		}
	}
	return out
}

// parseModel extracts (define-fun name () Sort value) entries.
func parseModel(m string) map[string]string {
	out := map[string]string{}
	i := 0
	for {
		k := strings.Index(m[i:], "(define-fun ")
		if k < 0 {
			break
		}
		i += k + len("(define-fun ")
		// name
		j := i
		if j < len(m) && m[j] == '|' {
			j = i + 1 + strings.Index(m[i+1:], "|") + 1
		} else {
			for j < len(m) && m[j] != ' ' {
				j++
			}
		}
		name := strings.Trim(m[i:j], "|")
		// args "()"
		rest := strings.TrimLeft(m[j:], " ")
		if !strings.HasPrefix(rest, "()") {
			i = j
			continue
		}
		rest = strings.TrimLeft(rest[2:], " ")
		// sort: atom or parenthesised
		p := 0
		if strings.HasPrefix(rest, "(") {
			depth := 0
			for p < len(rest) {
				if rest[p] == '(' {
					depth++
				} else if rest[p] == ')' {
					depth--
					if depth == 0 {
						p++
						break
					}
				}
				p++
			}
		} else {
			for p < len(rest) && rest[p] != ' ' && rest[p] != '\n' {
				p++
			}
		}
		rest = strings.TrimLeft(rest[p:], " \n")
		// value up to the matching close paren of define-fun
		depth := 0
		q := 0
		for q < len(rest) {
			if rest[q] == '(' {
				depth++
			} else if rest[q] == ')' {
				if depth == 0 {
					break
				}
				depth--
			}
			q++
		}
		out[name] = strings.Join(strings.Fields(rest[:q]), " ")
		i = j
	}
	return out
}
