package main

import (
	"fmt"
	"go/types"
	"strings"

	"golang.org/x/tools/go/ssa"
)

// Monitor verification (C19, C14): package-level state guarded by a mutex.
//
//   - acquiring the lock forgets the guarded state, assumes the monitor
//     invariant and the rely condition (relative to the state last seen);
//   - releasing the lock requires the invariant and the guarantee (the same
//     two-state formula, relative to the state at acquisition);
//   - every access to a guarded variable, and to the map/slice it holds,
//     requires the lock (write accesses the write lock).
//
// Mutual exclusion itself (sync.Mutex) is assumed.

func (e *fnEnc) monitorFor(g *ssa.Global) (*Monitor, bool) {
	if g == nil || g.Pkg == nil {
		return nil, false
	}
	for _, m := range e.eng.monitors[g.Pkg.Pkg.Path()] {
		if m.Mutex == g.Name() {
			return m, true
		}
	}
	return nil, false
}

func (e *fnEnc) guardedBy(g *ssa.Global) *Monitor {
	if g == nil || g.Pkg == nil {
		return nil
	}
	for _, m := range e.eng.monitors[g.Pkg.Pkg.Path()] {
		for _, n := range m.Guards {
			if n == g.Name() {
				return m
			}
		}
	}
	return nil
}

func heldComp(m *Monitor) string { return "Ghost.held." + m.Mutex }

// fieldMonitor: the address of a mutex field "(*T).f" named by a monitor.
func (e *fnEnc) fieldMonitor(fa *ssa.FieldAddr) (*Monitor, bool) {
	st := ptrElem(fa.X.Type())
	n, ok := types.Unalias(st).(*types.Named)
	if !ok || n.Obj().Pkg() == nil {
		return nil, false
	}
	fname := n.Underlying().(*types.Struct).Field(fa.Field).Name()
	want := "(*" + n.Obj().Name() + ")." + fname
	for _, m := range e.eng.monitors[n.Obj().Pkg().Path()] {
		if m.Mutex == want {
			return m, true
		}
	}
	return nil, false
}

// guardedField: a field named in the guards of a "(*T).f" monitor.
func (e *fnEnc) guardedField(fa *ssa.FieldAddr) *Monitor {
	st := ptrElem(fa.X.Type())
	n, ok := types.Unalias(st).(*types.Named)
	if !ok || n.Obj().Pkg() == nil {
		return nil
	}
	fname := n.Underlying().(*types.Struct).Field(fa.Field).Name()
	for _, m := range e.eng.monitors[n.Obj().Pkg().Path()] {
		if !strings.HasPrefix(m.Mutex, "(*"+n.Obj().Name()+").") {
			continue
		}
		for _, g := range m.Guards {
			if g == fname {
				return m
			}
		}
	}
	return nil
}

func (e *fnEnc) held(st *state, m *Monitor) Term {
	if t, ok := st.m[heldComp(m)]; ok {
		return t
	}
	// at entry the lock is not held, unless the contract says `requires_lock <mutex>`
	for _, cl := range e.ctr.Get("requires_lock") {
		if strings.Fields(cl.Text)[0] == m.Mutex {
			return intLit(2)
		}
	}
	return intLit(0)
}

// lockPreconditions: obligations at a call whose callee declares `requires_lock`.
func (e *fnEnc) lockPreconditions(c *blockCtx, in ssa.Instruction, name string, ctr *FuncContract) {
	for _, cl := range ctr.Get("requires_lock") {
		mname := strings.Fields(cl.Text)[0]
		for _, ms := range e.eng.monitors {
			for _, m := range ms {
				if m.Mutex == mname {
					e.obligation("guarded", fmt.Sprintf("call %s#%d:%s", shortCallee(name), e.callOrdinal(in, name), mname), c.reach, eq(e.held(c.st, m), intLit(2)), "callee requires the lock "+mname, e.posOf(in), false)
				}
			}
		}
	}
}

// lockCall recognises sync lock operations on a monitor mutex. It returns true
// when the call was handled.
func (e *fnEnc) lockCall(c *blockCtx, in ssa.Instruction, name string, cc *ssa.CallCommon) bool {
	var op string
	switch name {
	case "(*sync.Mutex).Lock", "(*sync.RWMutex).Lock":
		op = "lock"
	case "(*sync.RWMutex).RLock":
		op = "rlock"
	case "(*sync.Mutex).Unlock", "(*sync.RWMutex).Unlock":
		op = "unlock"
	case "(*sync.RWMutex).RUnlock":
		op = "runlock"
	default:
		return false
	}
	if len(cc.Args) == 0 {
		return false
	}
	var m *Monitor
	var pkg string
	var self Term
	var selfType types.Type
	switch a := cc.Args[0].(type) {
	case *ssa.Global:
		mm, ok := e.monitorFor(a)
		if !ok {
			return false
		}
		m, pkg = mm, a.Pkg.Pkg.Path()
	case *ssa.FieldAddr:
		mm, ok := e.fieldMonitor(a)
		if !ok {
			return false
		}
		m, pkg = mm, mm.Pkg
		self = e.val(a.X)
		selfType = a.X.Type()
	default:
		return false
	}
	ord := e.callOrdinal(in, name)
	switch op {
	case "lock", "rlock":
		e.obligation("monitor", fmt.Sprintf("%s:acquire#%d:not-held", m.Mutex, ord), c.reach, eq(e.held(c.st, m), intLit(0)), "lock is not re-acquired while held", e.posOf(in), false)
		before := c.st.clone()
		// forget the guarded state
		for _, gn := range m.Guards {
			if selfType != nil {
				e.havocLocation(c.st, &ESel{X: &EIdent{Name: "self"}, Name: gn}, &specEnv{enc: e, vars: map[string]SVal{"self": {t: self, typ: selfType}}, st: c.st, old: c.st, pkg: pkg})
				continue
			}
			e.havocGuarded(c.st, pkg, gn)
		}
		env := &specEnv{enc: e, vars: map[string]SVal{}, st: c.st, old: before, pkg: pkg}
		if selfType != nil {
			env.vars["self"] = SVal{t: self, typ: selfType}
		}
		e.assert(imp(c.reach, e.evalBool(m.Inv, env)))
		if m.Rely != nil {
			e.assert(imp(c.reach, e.evalBool(m.Rely, env)))
		}
		h := int64(2)
		if op == "rlock" {
			h = 1
		}
		c.st.m[heldComp(m)] = intLit(h)
		e.acquired[m.Mutex] = c.st.clone()
		e.assume("mutual exclusion of " + pkg + "." + m.Mutex + " is assumed (sync); acquiring it forgets the guarded state, assumes the monitor invariant and the rely condition")
	case "unlock", "runlock":
		want := int64(2)
		if op == "runlock" {
			want = 1
		}
		e.obligation("monitor", fmt.Sprintf("%s:release#%d:held", m.Mutex, ord), c.reach, eq(e.held(c.st, m), intLit(want)), "the lock released is the lock held", e.posOf(in), false)
		acq := e.acquired[m.Mutex]
		if acq == nil {
			acq = e.entrySt
		}
		env := &specEnv{enc: e, vars: map[string]SVal{}, st: c.st, old: acq, pkg: pkg}
		if selfType != nil {
			env.vars["self"] = SVal{t: self, typ: selfType}
		}
		e.obligation("monitor", fmt.Sprintf("%s:release#%d:invariant", m.Mutex, ord), c.reach, e.evalBool(m.Inv, env), m.InvTxt, e.posOf(in), false)
		if m.Rely != nil {
			e.obligation("monitor", fmt.Sprintf("%s:release#%d:guarantee", m.Mutex, ord), c.reach, e.evalBool(m.Rely, env), m.RelyTxt, e.posOf(in), false)
		}
		c.st.m[heldComp(m)] = intLit(0)
	}
	return true
}

// havocGuarded forgets a guarded package-level variable and what it holds.
func (e *fnEnc) havocGuarded(st *state, pkg, name string) {
	p := e.eng.pkgs[pkg]
	sp := e.eng.prog.Package(p.Types)
	g, ok := sp.Members[name].(*ssa.Global)
	if !ok {
		e.fail("monitor: %s.%s is not a package-level variable", pkg, name)
	}
	t := ptrElem(g.Type())
	addr := e.val(g)
	if isStructType(t) {
		e.havocObject(st, SVal{t: addr, typ: g.Type()})
		return
	}
	lv := &LValue{kind: 0, ref: addr, typ: t}
	nv := e.freshConst("guarded."+name, e.sortOf(t))
	e.assert(e.rangeOf(nv, t))
	e.storeLV(st, lv, nv)
	switch u := types.Unalias(t).Underlying().(type) {
	case *types.Map:
		ks, vs := e.sortOf(u.Key()), e.sortOf(u.Elem())
		dc, ds, vc, vsrt := e.mapComps(ks, vs)
		e.heapSet(st, dc, e.freshConst("havoc."+dc, ds))
		e.heapSet(st, vc, e.freshConst("havoc."+vc, vsrt))
		e.assert(lt(intLit(0), nv)) // an initialised map
	case *types.Slice:
		comp, cs := e.elemCompT(u.Elem())
		e.heapSet(st, comp, e.freshConst("havoc."+comp, cs))
	}
}

// guardedAccess emits the lock-held obligation for an access to a guarded global
// (or to the container loaded from it).
func (e *fnEnc) guardedAccess(c *blockCtx, in ssa.Instruction, v ssa.Value, write bool) {
	if fm, fname := e.fieldGuardRoot(v); fm != nil {
		need := le(intLit(1), e.held(c.st, fm))
		what := "read"
		if write {
			need = eq(e.held(c.st, fm), intLit(2))
			what = "write"
		}
		e.fieldGuardCount[fname+what]++
		e.obligation("guarded", fmt.Sprintf("%s:%s#%d", fname, what, e.fieldGuardCount[fname+what]-1), c.reach, need, fmt.Sprintf("%s of %s requires %s", what, fname, fm.Mutex), e.posOf(in), false)
		return
	}
	g, m := e.guardRoot(v)
	if m == nil {
		return
	}
	need := le(intLit(1), e.held(c.st, m))
	what := "read"
	if write {
		need = eq(e.held(c.st, m), intLit(2))
		what = "write"
	}
	e.obligation("guarded", fmt.Sprintf("%s:%s#%d", g.Name(), what, e.guardOrdinal(in, g)), c.reach, need, fmt.Sprintf("%s of %s requires %s", what, g.Name(), m.Mutex), e.posOf(in), false)
}

// guardRoot follows a value back to a guarded global it was loaded from.
func (e *fnEnc) guardRoot(v ssa.Value) (*ssa.Global, *Monitor) {
	for i := 0; i < 8; i++ {
		switch x := v.(type) {
		case *ssa.Global:
			if m := e.guardedBy(x); m != nil {
				return x, m
			}
			return nil, nil
		case *ssa.UnOp:
			v = x.X
		case *ssa.Slice:
			v = x.X
		case *ssa.IndexAddr:
			v = x.X
		case *ssa.FieldAddr:
			v = x.X
		default:
			return nil, nil
		}
	}
	return nil, nil
}

func (e *fnEnc) guardOrdinal(in ssa.Instruction, g *ssa.Global) int {
	n := 0
	for _, b := range e.fn.Blocks {
		for _, i2 := range b.Instrs {
			if i2 == in {
				return n
			}
			for _, op := range i2.Operands(nil) {
				if r, _ := e.guardRoot(*op); r == g {
					if i2.Pos() <= in.Pos() {
						n++
					}
					break
				}
			}
		}
	}
	return n
}

var _ = strings.TrimSpace

// fieldGuardRoot follows a value back to a guarded struct field.
func (e *fnEnc) fieldGuardRoot(v ssa.Value) (*Monitor, string) {
	for i := 0; i < 8; i++ {
		switch x := v.(type) {
		case *ssa.FieldAddr:
			if m := e.guardedField(x); m != nil {
				st := types.Unalias(ptrElem(x.X.Type())).Underlying().(*types.Struct)
				return m, st.Field(x.Field).Name()
			}
			v = x.X
		case *ssa.UnOp:
			v = x.X
		case *ssa.Slice:
			v = x.X
		case *ssa.IndexAddr:
			v = x.X
		default:
			return nil, ""
		}
	}
	return nil, ""
}
