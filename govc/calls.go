package main

import (
	"fmt"
	"go/types"
	"sort"
	"strings"

	"golang.org/x/tools/go/ssa"
)

// ---------- strings ----------

func (e *fnEnc) litLen(s Term) (int, bool) {
	// (mk-str strlit.arr.K 0 N)
	var k, n int
	if _, err := fmt.Sscanf(s.S, "(mk-str strlit.arr.%d 0 %d)", &k, &n); err == nil {
		return n, true
	}
	return 0, false
}

func (e *fnEnc) strEq(a, b Term) Term {
	if a.Sort == SAStr {
		return eq(a, b)
	}
	if a.S == b.S {
		return tTrue
	}
	if n, ok := e.litLen(b); ok {
		return e.strEqLit(a, b, n)
	}
	if n, ok := e.litLen(a); ok {
		return e.strEqLit(b, a, n)
	}
	f := sym("streq")
	if !e.declSeen[f] {
		e.declSeen[f] = true
		e.needSort(SStr)
		e.decls = append(e.decls, "(define-fun streq ((a Str) (b Str)) Bool (and (= (s-len a) (s-len b)) (forall ((i Int)) (! (=> (and (<= 0 i) (< i (s-len a))) (= (byteAt a i) (byteAt b i))) :pattern ((byteAt a i)) :pattern ((byteAt b i))))))")
	}
	return app(SBool, "streq", a, b)
}

func (e *fnEnc) strEqLit(a, lit Term, n int) Term {
	cs := []Term{eq(strLen(a), intLit(int64(n)))}
	for i := 0; i < n; i++ {
		cs = append(cs, eq(strAt(a, intLit(int64(i))), strAt(lit, intLit(int64(i)))))
	}
	return and(cs...)
}

func (e *fnEnc) strCompare(a, b Term) Term {
	if a.Sort == SAStr {
		return app(SInt, e.acmpFun(), a, b)
	}
	f := sym("lexcmp")
	if !e.declSeen[f] {
		e.declareFun("lexcmp", []Sort{SStr, SStr}, SInt)
		e.strEq(e.freshConst("s", SStr), e.freshConst("s", SStr)) // make sure streq is defined
		e.decls = append(e.decls,
			"(assert (forall ((a Str) (b Str)) (! (and (<= (- 1) (lexcmp a b)) (<= (lexcmp a b) 1) (= (= (lexcmp a b) 0) (streq a b)) (= (lexcmp a b) (- (lexcmp b a)))) :pattern ((lexcmp a b)))))",
			"(assert (forall ((a Str) (b Str) (c Str)) (! (=> (and (<= (lexcmp a b) 0) (<= (lexcmp b c) 0)) (and (<= (lexcmp a c) 0) (=> (or (< (lexcmp a b) 0) (< (lexcmp b c) 0)) (< (lexcmp a c) 0)))) :pattern ((lexcmp a b) (lexcmp b c)))))")
		e.assume("lexcmp: bytewise lexicographic comparison is axiomatised as a total order (range {-1,0,1}, zero iff equal, antisymmetric, transitive)")
	}
	return app(SInt, "lexcmp", a, b)
}

// acmpFun declares the abstract string order with its total-order axioms.
func (e *fnEnc) acmpFun() string {
	if !e.declSeen[sym("acmp")] {
		e.declareFun("acmp", []Sort{SAStr, SAStr}, SInt)
		e.decls = append(e.decls,
			"(assert (forall ((a AStr) (b AStr)) (! (and (<= (- 1) (acmp a b)) (<= (acmp a b) 1) (= (= (acmp a b) 0) (= a b)) (= (acmp a b) (- (acmp b a)))) :pattern ((acmp a b)))))",
			"(assert (forall ((a AStr) (b AStr) (c AStr)) (! (=> (and (<= (acmp a b) 0) (<= (acmp b c) 0)) (and (<= (acmp a c) 0) (=> (or (< (acmp a b) 0) (< (acmp b c) 0)) (< (acmp a c) 0)))) :pattern ((acmp a b) (acmp b c)))))")
		e.assume("bytewise lexicographic comparison of strings/bytes is an (axiomatised) total order: range {-1,0,1}, zero iff equal, antisymmetric, transitive")
	}
	return "acmp"
}

// astrLit: abstract string literal; distinct literals are distinct values.
func (e *fnEnc) astrLit(v string) Term {
	key := "astr:" + v
	if t, ok := e.strLits[key]; ok {
		return t
	}
	t := e.declare(fmt.Sprintf("astr.%d", len(e.strLits)), SAStr)
	e.assertGlobal(eq(strLen(t), intLit(int64(len(v)))))
	for k, o := range e.strLits {
		if strings.HasPrefix(k, "astr:") {
			e.assertGlobal(not(eq(t, o)))
		}
	}
	e.strLits[key] = t
	return t
}

// abytes: abstract content of a byte slice.
func (e *fnEnc) abytes(st *state, sl Term) Term {
	f := e.declareFun("abytes", []Sort{ArrayOf(SInt, SInt), SInt, SInt}, SAStr)
	comp, cs := e.elemCompT(types.Typ[types.Uint8])
	arr := sel(e.heapGet(st, comp, cs), slBase(sl), ArrayOf(SInt, SInt))
	return app(SAStr, f, arr, slOff(sl), slLen(sl))
}

func (e *fnEnc) strConcat(a, b Term) Term {
	r := e.freshConst("concat", SStr)
	e.assert(and(eq(strLen(r), add(strLen(a), strLen(b))), eq(strOff(r), intLit(0))))
	// contents
	q := fmt.Sprintf("(forall ((i Int)) (and (=> (and (<= 0 i) (< i (s-len %s))) (= (select (s-arr %s) i) (select (s-arr %s) (+ (s-off %s) i)))) (=> (and (<= 0 i) (< i (s-len %s))) (= (select (s-arr %s) (+ (s-len %s) i)) (select (s-arr %s) (+ (s-off %s) i))))))",
		a.S, r.S, a.S, a.S, b.S, r.S, a.S, b.S, b.S)
	e.assert(T(SBool, q))
	return r
}

// ---------- calls ----------

func (e *fnEnc) calleeName(cc *ssa.CallCommon) (string, *types.Signature) {
	if cc.IsInvoke() {
		recv := types.Unalias(cc.Value.Type())
		return canonFuncName("(" + types.TypeString(recv, nil) + ")." + cc.Method.Name()), cc.Method.Type().(*types.Signature)
	}
	if f := cc.StaticCallee(); f != nil {
		// a method expression T.m is called through a synthetic thunk with the
		// receiver as first parameter: the method's contract applies as it stands
		return strings.TrimSuffix(canonFuncName(f.String()), "$thunk"), f.Signature
	}
	return "", cc.Signature()
}

func (e *fnEnc) callOrdinal(in ssa.Instruction, name string) int {
	n := 0
	for _, b := range e.fn.Blocks {
		for _, i2 := range b.Instrs {
			ci, ok := i2.(ssa.CallInstruction)
			if !ok || i2 == in {
				continue
			}
			nm, _ := e.calleeName(ci.Common())
			if nm == name && i2.Pos() < in.Pos() {
				n++
			}
		}
	}
	return n
}

func shortCallee(name string) string {
	name = strings.ReplaceAll(name, repoModule+"/", "")
	if i := strings.LastIndex(name, "/"); i >= 0 {
		// keep leading "(*" if any
		pre := ""
		if strings.HasPrefix(name, "(*") {
			pre = "(*"
		} else if strings.HasPrefix(name, "(") {
			pre = "("
		}
		name = pre + name[i+1:]
	}
	return name
}

func (e *fnEnc) call(c *blockCtx, in ssa.Instruction, cc *ssa.CallCommon) []Term {
	sig := cc.Signature()
	// builtins
	if b, ok := cc.Value.(*ssa.Builtin); ok {
		e.curArgs = nil
		e.effectObligations(c, in, "builtin", b.Name())
		return e.builtin(c, in, b, cc)
	}
	name, _ := e.calleeName(cc)
	var args []Term
	var argTypes []types.Type
	if cc.IsInvoke() {
		args = append(args, e.val(cc.Value))
		argTypes = append(argTypes, cc.Value.Type())
	}
	for _, a := range cc.Args {
		if fa, ok := a.(*ssa.FieldAddr); ok {
			if m := e.guardedField(fa); m != nil && !strings.HasPrefix(name, "(*sync.") {
				// the address of a guarded field escapes to a callee: counts as a write access
				e.guardedAccess(c, in, a, true)
			}
		}
		if _, isLV := e.lvals[a]; isLV {
			e.fail("address of a scalar field/element passed to call %s", name)
		}
		args = append(args, e.val(a))
		argTypes = append(argTypes, a.Type())
	}
	// closure call whose target is known
	e.curBindings = nil
	{
		if mc, ok := cc.Value.(*ssa.MakeClosure); ok {
			fn := mc.Fn.(*ssa.Function)
			name = canonFuncName(fn.String())
			e.curBindings = map[string]SVal{}
			for i, fv := range fn.FreeVars {
				e.curBindings[fv.Name()] = SVal{t: e.val(mc.Bindings[i]), typ: fv.Type(), fvPtr: true}
			}
		}
	}
	e.curArgs = args
	if e.lockCall(c, in, name, cc) {
		return nil
	}
	e.effectObligations(c, in, "call", name)
	// models of stdlib functions
	if res, ok := e.stdlibModel(c, in, name, args, cc); ok {
		return res
	}
	// call-site specific contract: "callsite <label> contract <name>" where label is
	// the function-valued variable, "dynamic#k" (k-th dynamic call) or "<callee>#k"
	{
		label := ""
		if name == "" {
			label = valLabel(cc.Value)
		}
		dyn := fmt.Sprintf("dynamic#%d", e.dynOrdinal(in))
		static := ""
		if name != "" {
			static = fmt.Sprintf("%s#%d", shortCallee(name), e.callOrdinal(in, name))
		}
		for _, cl := range e.ctr.Get("callsite") {
			f := strings.Fields(cl.Text)
			staticAny := ""
			if name != "" {
				staticAny = shortCallee(name) + "#*"
			}
			if len(f) == 3 && f[1] == "contract" && (f[0] == label && name == "" || f[0] == dyn && name == "" || f[0] == static && name != "" || f[0] == staticAny && name != "") {
				name = qualifyFuncName(e.pkg, e.eng.expandAlias(e.pkg, f[2]))
				if ctr := e.eng.contracts[name]; ctr != nil {
					res := e.applyContract(c, in, name, ctr, args, argTypes, cc)
					e.alwaysObligations(c, in)
					return res
				}
				e.fail("callsite contract %s not found", name)
			}
		}
	}
	if name == "" {
		for _, cl := range e.ctr.Get("callsite") {
			f := strings.Fields(cl.Text)
			if len(f) >= 3 && f[1] == "cases" && f[0] == valLabel(cc.Value) {
				var cands []string
				for _, c := range strings.Split(strings.Join(f[2:], ""), "|") {
					cands = append(cands, qualifyFuncName(e.pkg, e.resolvePkgAlias(e.pkg, c)))
				}
				return e.applyCases(c, in, e.val(cc.Value), cands, args, argTypes, cc)
			}
		}
	}
	ctr := e.eng.contracts[name]
	if ctr == nil {
		if res, ok := e.inlineCall(c, in, cc, name, args); ok {
			return res
		}
		return e.uncontractedCall(c, in, name, sig)
	}
	return e.applyContract(c, in, name, ctr, args, argTypes, cc)
}

func (e *fnEnc) resultTerms(c *blockCtx, in ssa.Instruction, sig *types.Signature, base string) []Term {
	var res []Term
	for i := 0; i < sig.Results().Len(); i++ {
		rt := sig.Results().At(i).Type()
		v := e.freshConst(fmt.Sprintf("%s.r%d", base, i), e.sortOf(rt))
		e.assert(e.rangeOf(v, rt))
		res = append(res, v)
	}
	return res
}

func (e *fnEnc) uncontractedCall(c *blockCtx, in ssa.Instruction, name string, sig *types.Signature) []Term {
	if name == "" {
		name = "dynamic call"
	}
	if neutralStdlib(name) || e.eng.neutralExtra[shortCallee(name)] {
		// standard-library functions that compute on their arguments only (string and
		// path manipulation, formatting, logging, arithmetic): no effect on program
		// memory reachable by the functions under contract; results unconstrained
		e.assume("assumed A-ext: " + shortCallee(name) + " has no effect on program memory (standard library, no contract: result unconstrained)")
		na := e.freshConst("alloc@c", SInt)
		e.assert(le(c.st.alloc, na))
		c.st.alloc = na
		res := e.resultTerms(c, in, sig, "call")
		for i, r := range res {
			e.assert(e.existsAt(r, sig.Results().At(i).Type(), c.st.alloc))
		}
		return res
	}
	e.assume("uncontracted call havocs the heap: " + shortCallee(name) + " in " + e.shortFuncName())
	e.havocAll(c.st)
	res := e.resultTerms(c, in, sig, "call")
	for i, r := range res {
		e.assert(e.existsAt(r, sig.Results().At(i).Type(), c.st.alloc))
	}
	return res
}

// paramNames returns receiver+parameter names of a signature.
func paramNames(sig *types.Signature, invoke bool) []string {
	var out []string
	if sig.Recv() != nil {
		n := sig.Recv().Name()
		if n == "" || n == "_" {
			n = "recv"
		}
		out = append(out, n)
	} else if invoke {
		out = append(out, "recv")
	}
	for i := 0; i < sig.Params().Len(); i++ {
		n := sig.Params().At(i).Name()
		if n == "" || n == "_" {
			n = fmt.Sprintf("arg%d", i)
		}
		out = append(out, n)
	}
	return out
}

func resultNames(sig *types.Signature) []string {
	var out []string
	for i := 0; i < sig.Results().Len(); i++ {
		n := sig.Results().At(i).Name()
		if n == "" || n == "_" {
			n = fmt.Sprintf("result%d", i)
		}
		out = append(out, n)
	}
	return out
}

func (e *fnEnc) calleeSig(name string, cc *ssa.CallCommon) *types.Signature {
	if cc != nil && cc.IsInvoke() {
		return cc.Method.Type().(*types.Signature)
	}
	if cc != nil && cc.StaticCallee() != nil && cc.StaticCallee().Signature.TypeParams() == nil && len(cc.StaticCallee().TypeArgs()) > 0 {
		// an instantiation of a generic function: use the instantiated signature
		return cc.StaticCallee().Signature
	}
	if f := e.eng.funcs[name]; f != nil {
		return f.Signature
	}
	if cc != nil {
		if f := cc.StaticCallee(); f != nil {
			return f.Signature
		}
		return cc.Signature()
	}
	return nil
}

// pureApp: results of a pure (deterministic, heap-independent) function as
// applications of uninterpreted functions of its arguments.
func (e *fnEnc) pureApp(name string, sig *types.Signature, args []Term) []Term {
	var as []Sort
	for _, a := range args {
		as = append(as, a.Sort)
	}
	var out []Term
	for i := 0; i < sig.Results().Len(); i++ {
		rs := e.sortOf(sig.Results().At(i).Type())
		f := e.declareFun(fmt.Sprintf("pure.%s.%d", shortCallee(name), i), as, rs)
		out = append(out, app(rs, f, args...))
	}
	return out
}

func (e *fnEnc) applyContract(c *blockCtx, in ssa.Instruction, name string, ctr *FuncContract, args []Term, argTypes []types.Type, cc *ssa.CallCommon) []Term {
	sig := e.calleeSig(name, cc)
	invoke := cc != nil && cc.IsInvoke()
	names := paramNames(sig, invoke)
	if f := e.eng.funcs[name]; f != nil && len(f.Params) == len(args) {
		names = nil
		for _, p := range f.Params {
			names = append(names, p.Name())
		}
	}
	if len(names) != len(args) {
		names = nil
		for i := range args {
			names = append(names, fmt.Sprintf("arg%d", i))
		}
	}
	vars := map[string]SVal{}
	for i, n := range names {
		vars[n] = SVal{t: args[i], typ: argTypes[i]}
	}
	for k, v := range e.curBindings {
		vars[k] = v
	}
	e.tpBind = map[string]types.Type{}
	if f := e.eng.funcs[name]; f != nil && len(argTypes) > 0 {
		if rtp := f.Signature.RecvTypeParams(); rtp != nil {
			at := types.Unalias(argTypes[0])
			if p, ok := at.(*types.Pointer); ok {
				at = types.Unalias(p.Elem())
			}
			if n, ok := at.(*types.Named); ok && n.TypeArgs() != nil && n.TypeArgs().Len() == rtp.Len() {
				for i := 0; i < rtp.Len(); i++ {
					e.tpBind[rtp.At(i).Obj().Name()] = n.TypeArgs().At(i)
				}
			}
		}
	}
	pre := c.st.clone()
	env := &specEnv{enc: e, vars: vars, st: c.st, old: pre, pkg: ctr.Pkg}
	ord := e.callOrdinal(in, name)
	label := fmt.Sprintf("%s#%d", shortCallee(name), ord)
	e.lockPreconditions(c, in, name, ctr)
	for i, cl := range ctr.Get("requires") {
		g := e.evalBool(cl.E, env)
		e.obligation("pre", fmt.Sprintf("%s:%s", label, clauseLabel(cl, i)), c.reach, g, cl.Text, e.posOf(in), false)
	}
	// frame: locations are evaluated in the state before the call
	preEnv := *env
	preEnv.st = pre
	e.applyAssigns(c, ctr, &preEnv)
	// results
	rn := resultNames(sig)
	res := e.resultTerms(c, in, sig, "call."+shortCallee(name))
	if ctr.Options["pure"] != "" {
		for i, p := range e.pureApp(name, sig, args) {
			e.assert(eq(res[i], p))
		}
		e.assume("pure function (deterministic, reads only its arguments; checked syntactically): " + shortCallee(name))
	}
	post := &specEnv{enc: e, vars: map[string]SVal{}, st: c.st, old: pre, pkg: ctr.Pkg}
	for k, v := range vars {
		post.vars[k] = v
	}
	for i, r := range res {
		rt := sig.Results().At(i).Type()
		post.vars[rn[i]] = SVal{t: r, typ: rt}
		post.vars[fmt.Sprintf("result%d", i)] = SVal{t: r, typ: rt}
		if len(res) == 1 {
			post.vars["result"] = SVal{t: r, typ: rt}
		}
		e.assert(e.existsAt(r, rt, c.st.alloc))
	}
	for _, cl := range ctr.Get("ensures") {
		e.assert(imp(c.reach, e.evalBool(cl.E, post)))
	}
	for _, cl := range ctr.Get("ensures_assumed") {
		e.assert(imp(c.reach, e.evalBool(cl.E, post)))
		e.assume("assumed postcondition of " + shortCallee(name) + " (not verified against its body): " + cl.Text)
	}
	if ctr.Assumed {
		e.assume("assumed contract: " + shortCallee(name) + " (" + ctr.AssumeWhy + ")")
	}
	return res
}

// applyAssigns havocs what the callee may modify.
func (e *fnEnc) applyAssigns(c *blockCtx, ctr *FuncContract, env *specEnv) {
	as := ctr.Get("assigns")
	if len(as) == 0 {
		// default: pure with respect to existing memory, may allocate
		na := e.freshConst("alloc@c", SInt)
		e.assert(le(c.st.alloc, na))
		c.st.alloc = na
		return
	}
	for _, cl := range as {
		txt := strings.TrimSpace(cl.Text)
		switch {
		case txt == "nothing":
		case txt == "heap" || txt == "*":
			e.havocAll(c.st)
		case strings.HasPrefix(txt, "heap except "):
			// everything may change except the listed components
			// ("allelems(T)" or "all T.f", separated by '+')
			type keep struct {
				comp string
				val  Term
			}
			var keeps []keep
			for _, part := range strings.Split(txt[len("heap except "):], "+") {
				part = strings.TrimSpace(part)
				switch {
				case strings.HasPrefix(part, "allelems("):
					t, ok := e.eng.lookupType(env.pkg, part[len("allelems("):len(part)-1])
					if !ok {
						e.fail("assigns %s: unknown type", txt)
					}
					comp, cs := e.elemCompT(t)
					keeps = append(keeps, keep{comp, e.heapGet(c.st, comp, cs)})
				case strings.HasPrefix(part, "all "):
					nm := strings.TrimSpace(part[4:])
					k := strings.LastIndex(nm, ".")
					if k < 0 {
						e.fail("assigns %s: all T.f expected", txt)
					}
					t, ok := e.eng.lookupType(env.pkg, nm[:k])
					if !ok {
						e.fail("assigns %s: unknown type %s", txt, nm[:k])
					}
					si := e.structOf(t)
					i := si.fieldIndex(nm[k+1:])
					if i < 0 {
						e.fail("assigns %s: no field %s", txt, nm)
					}
					comp, cs := e.fieldComp(si, i)
					keeps = append(keeps, keep{comp, e.heapGet(c.st, comp, cs)})
				default:
					e.fail("assigns %s: cannot keep %q", txt, part)
				}
			}
			e.havocAll(c.st)
			for _, k := range keeps {
				e.heapSet(c.st, k.comp, k.val)
			}
		case strings.HasSuffix(txt, ".*"):
			// all fields of one object
			ex, err := parseExpr(strings.TrimSuffix(txt, ".*"))
			if err != nil {
				e.fail("assigns %s: %v", txt, err)
			}
			v := e.evalSpec(ex, env)
			e.havocObject(c.st, v)
		case strings.HasPrefix(txt, "mapof("):
			ex, err := parseExpr(txt[len("mapof(") : len(txt)-1])
			if err != nil {
				e.fail("assigns %s: %v", txt, err)
			}
			v := e.evalSpec(ex, env)
			ks, vs, _ := e.mapSorts(v.typ)
			dc, ds, vc, vsrt := e.mapComps(ks, vs)
			e.heapSet(c.st, dc, store(e.heapGet(c.st, dc, ds), v.t, e.freshConst("havoc.dom", ArrayOf(ks, SBool))))
			e.heapSet(c.st, vc, store(e.heapGet(c.st, vc, vsrt), v.t, e.freshConst("havoc.val", ArrayOf(ks, vs))))
		case strings.HasPrefix(txt, "allelemsof("):
			ex, err := parseExpr(txt[len("allelemsof(") : len(txt)-1])
			if err != nil {
				e.fail("assigns %s: %v", txt, err)
			}
			v := e.evalSpec(ex, env)
			comp, cs := e.elemCompT(types.Unalias(v.typ).Underlying().(*types.Slice).Elem())
			e.heapSet(c.st, comp, e.freshConst("havoc."+comp, cs))
		case strings.HasPrefix(txt, "allelems("):
			t, ok := e.eng.lookupType(env.pkg, txt[len("allelems("):len(txt)-1])
			if !ok {
				e.fail("assigns %s: unknown type", txt)
			}
			comp, cs := e.elemCompT(t)
			e.heapSet(c.st, comp, e.freshConst("havoc."+comp, cs))
		case strings.HasPrefix(txt, "elems(") || strings.HasPrefix(txt, "all "):
			// elems(s): contents of the slice; "all T.f": field f of every T
			if strings.HasPrefix(txt, "all ") {
				e.havocComponentByName(c.st, env, strings.TrimSpace(txt[4:]))
			} else {
				ex, err := parseExpr(txt[len("elems(") : len(txt)-1])
				if err != nil {
					e.fail("assigns %s: %v", txt, err)
				}
				v := e.evalSpec(ex, env)
				et := types.Unalias(v.typ).Underlying().(*types.Slice).Elem()
				es := e.sortOf(et)
				comp, cs := e.elemCompT(et)
				arr := e.heapGet(c.st, comp, cs)
				e.heapSet(c.st, comp, store(arr, slBase(v.t), e.freshConst("havoc.elems", ArrayOf(SInt, es))))
			}
		default:
			if gt, ok := e.eng.ghostVars[txt]; ok {
				srt, _ := e.specSort(env.pkg, gt)
				e.heapSet(c.st, "Ghost.var."+txt, e.freshConst("ghost."+txt, srt))
				e.ghostTouched = true
				continue
			}
			// a single location x.f (or map m, box *p)
			ex, err := parseExpr(txt)
			if err != nil {
				e.fail("assigns %s: %v", txt, err)
			}
			e.havocLocation(c.st, ex, env)
		}
	}
	na := e.freshConst("alloc@c", SInt)
	e.assert(le(c.st.alloc, na))
	c.st.alloc = na
}

func (e *fnEnc) havocObject(st *state, v SVal) {
	pt, ok := types.Unalias(v.typ).Underlying().(*types.Pointer)
	if !ok || !isStructType(pt.Elem()) {
		e.fail("assigns x.*: x must be a pointer to struct")
	}
	var rec func(si *structInfo, r Term)
	rec = func(si *structInfo, r Term) {
		for i, f := range si.fields {
			if f.embStruct {
				rec(e.structOf(f.typ), e.embApp(si, i, r))
				continue
			}
			comp, s := e.fieldComp(si, i)
			nv := e.freshConst("havoc."+f.name, f.sort)
			if f.typ != nil {
				e.assert(e.rangeOf(nv, f.typ))
			}
			e.heapSet(st, comp, store(e.heapGet(st, comp, s), r, nv))
		}
	}
	rec(e.structOf(pt.Elem()), v.t)
}

func (e *fnEnc) havocLocation(st *state, ex Expr, env *specEnv) {
	sel, ok := ex.(*ESel)
	if !ok {
		e.fail("assigns: unsupported location %s", ex)
	}
	base := e.evalAddrBase(sel.X, env)
	si, i, ref := e.fieldLoc(base, sel.Name)
	f := si.fields[i]
	if f.embStruct {
		e.havocObject(st, SVal{t: e.embApp(si, i, ref), typ: types.NewPointer(f.typ)})
		return
	}
	comp, s := e.fieldComp(si, i)
	nv := e.freshConst("havoc."+f.name, f.sort)
	if f.typ != nil {
		e.assert(e.rangeOf(nv, f.typ))
	}
	e.heapSet(st, comp, store(e.heapGet(st, comp, s), ref, nv))
}

// havocComponentByName: "T.f" -> whole heap component for field f of struct T.
func (e *fnEnc) havocComponentByName(st *state, env *specEnv, txt string) {
	k := strings.LastIndex(txt, ".")
	if k < 0 {
		e.fail("assigns all T.f expected, got %q", txt)
	}
	t, ok := e.eng.lookupType(env.pkg, txt[:k])
	if !ok {
		e.fail("assigns all: unknown type %s", txt[:k])
	}
	si := e.structOf(t)
	i := si.fieldIndex(txt[k+1:])
	if i < 0 {
		e.fail("assigns all: no field %s", txt)
	}
	comp, s := e.fieldComp(si, i)
	e.heapSet(st, comp, e.freshConst("havoc."+comp, s))
}

// ---------- builtins ----------

func (e *fnEnc) builtin(c *blockCtx, in ssa.Instruction, b *ssa.Builtin, cc *ssa.CallCommon) []Term {
	switch b.Name() {
	case "len":
		x := e.val(cc.Args[0])
		var n Term
		switch x.Sort {
		case SStr, SAStr:
			n = strLen(x)
		case SSlice:
			n = slLen(x)
		default:
			switch u := types.Unalias(cc.Args[0].Type()).Underlying().(type) {
			case *types.Map:
				// size of a map: uninterpreted, non-negative
				v := e.freshConst("maplen", SInt)
				e.assert(le(intLit(0), v))
				n = v
			case *types.Array:
				n = intLit(u.Len())
			case *types.Pointer:
				n = intLit(u.Elem().Underlying().(*types.Array).Len())
			case *types.Chan:
				v := e.freshConst("chanlen", SInt)
				e.assert(le(intLit(0), v))
				n = v
			default:
				e.fail("len of %s", cc.Args[0].Type())
			}
		}
		if s := e.sortOf(types.Typ[types.Int]); s.IsBV() {
			return []Term{app(s, "(_ int2bv 64)", n)}
		}
		return []Term{n}
	case "cap":
		x := e.val(cc.Args[0])
		if x.Sort == SSlice {
			return []Term{slCap(x)}
		}
		e.fail("cap of %s", x.Sort)
	case "append":
		return []Term{e.appendModel(c, in, cc)}
	case "copy":
		return []Term{e.copyModel(c, in, cc)}
	case "min", "max":
		x, y := e.val(cc.Args[0]), e.val(cc.Args[1])
		if len(cc.Args) != 2 || x.Sort != SInt {
			e.fail("min/max form not supported")
		}
		if b.Name() == "min" {
			return []Term{ite(le(x, y), x, y)}
		}
		return []Term{ite(le(x, y), y, x)}
	case "delete":
		m := e.val(cc.Args[0])
		ks, vs, _ := e.mapSorts(cc.Args[0].Type())
		dc, ds, _, _ := e.mapComps(ks, vs)
		dom := e.heapGet(c.st, dc, ds)
		e.heapSet(c.st, dc, store(dom, m, store(sel(dom, m, ArrayOf(ks, SBool)), e.val(cc.Args[1]), tFalse)))
		return nil
	case "print", "println":
		return nil
	case "recover":
		return []Term{T(SIface, "(mk-iface 0 0)")}
	case "ssa:wrapnilchk":
		return []Term{e.val(cc.Args[0])}
	case "clear":
		e.fail("clear builtin")
	}
	e.fail("unsupported builtin %s", b.Name())
	return nil
}

func (e *fnEnc) appendModel(c *blockCtx, in ssa.Instruction, cc *ssa.CallCommon) Term {
	s := e.val(cc.Args[0])
	st := types.Unalias(cc.Args[0].Type()).Underlying().(*types.Slice)
	es := e.sortOf(st.Elem())
	comp, cs := e.elemCompT(st.Elem())
	inner := ArrayOf(SInt, es)
	var tlen Term
	var telem func(j Term) Term
	t := e.val(cc.Args[1])
	switch t.Sort {
	case SSlice:
		tlen = slLen(t)
		tarr := sel(e.heapGet(c.st, comp, cs), slBase(t), inner)
		telem = func(j Term) Term { return sel(tarr, add(slOff(t), j), es) }
	case SStr: // append([]byte, string...)
		tlen = strLen(t)
		telem = func(j Term) Term { return strAt(t, j) }
	default:
		e.fail("append of %s", t.Sort)
	}
	heap := e.heapGet(c.st, comp, cs)
	sarr := sel(heap, slBase(s), inner)
	nb := e.freshConst("append.base", SInt)
	no := e.freshConst("append.off", SInt)
	nc := e.freshConst("append.cap", SInt)
	narr := e.freshConst("append.arr", inner)
	nlen := add(slLen(s), tlen)
	inplace := and(le(nlen, slCap(s)), not(eq(slBase(s), intLit(0))))
	fresh := e.newRef(c.st, "append.new")
	e.assert(ite(inplace,
		and(eq(nb, slBase(s)), eq(no, slOff(s)), eq(nc, slCap(s))),
		and(eq(nb, fresh), eq(no, intLit(0)), le(nlen, nc))))
	// old prefix preserved
	e.assert(T(SBool, fmt.Sprintf("(forall ((i Int)) (! (=> (and (<= 0 i) (< i %s)) (= (select %s (+ %s i)) (select %s (+ %s i)))) :pattern ((select %s (+ %s i)))))",
		slLen(s).S, narr.S, no.S, sarr.S, slOff(s).S, narr.S, no.S)))
	// the same fact triggered by any read of the new array (absolute index): the
	// pattern above contains an addition, which the solvers' arithmetic
	// normalisation can hide from e-matching
	e.assert(T(SBool, fmt.Sprintf("(forall ((j Int)) (! (=> (and (<= %s j) (< j (+ %s %s))) (= (select %s j) (select %s (+ %s (- j %s))))) :pattern ((select %s j))))",
		no.S, no.S, slLen(s).S, narr.S, sarr.S, slOff(s).S, no.S, narr.S)))
	// appended elements
	if n, ok := e.smallConstLen(cc.Args[1]); ok {
		for j := 0; j < n; j++ {
			e.assert(eq(sel(narr, add(no, add(slLen(s), intLit(int64(j)))), es), telem(intLit(int64(j)))))
		}
	} else {
		e.assert(T(SBool, fmt.Sprintf("(forall ((j Int)) (=> (and (<= 0 j) (< j %s)) (= (select %s (+ %s (+ %s j))) %s)))",
			tlen.S, narr.S, no.S, slLen(s).S, telem(T(SInt, "j")).S)))
	}
	// in place: everything outside the appended window unchanged
	e.assert(imp(inplace, T(SBool, fmt.Sprintf("(forall ((i Int)) (! (=> (or (< i (+ %s %s)) (>= i (+ %s %s))) (= (select %s i) (select %s i))) :pattern ((select %s i))))",
		slOff(s).S, slLen(s).S, slOff(s).S, nlen.S, narr.S, sarr.S, narr.S))))
	e.heapSet(c.st, comp, store(heap, nb, narr))
	return app(SSlice, "mk-slice", nb, no, nlen, nc)
}

// smallConstLen recognises the varargs slice "new [N]T; slice" pattern.
func (e *fnEnc) smallConstLen(v ssa.Value) (int, bool) {
	if sl, ok := v.(*ssa.Slice); ok && sl.Low == nil && sl.High == nil {
		if al, ok := sl.X.(*ssa.Alloc); ok {
			if at, ok := ptrElem(al.Type()).Underlying().(*types.Array); ok && at.Len() <= 8 {
				return int(at.Len()), true
			}
		}
	}
	return 0, false
}

func (e *fnEnc) copyModel(c *blockCtx, in ssa.Instruction, cc *ssa.CallCommon) Term {
	dst := e.val(cc.Args[0])
	src := e.val(cc.Args[1])
	st := types.Unalias(cc.Args[0].Type()).Underlying().(*types.Slice)
	es := e.sortOf(st.Elem())
	comp, cs := e.elemCompT(st.Elem())
	inner := ArrayOf(SInt, es)
	heap := e.heapGet(c.st, comp, cs)
	var slen Term
	var selem func(j string) string
	if src.Sort == SStr {
		slen = strLen(src)
		selem = func(j string) string {
			return fmt.Sprintf("(select (s-arr %s) (+ (s-off %s) %s))", src.S, src.S, j)
		}
	} else {
		slen = slLen(src)
		sarr := sel(heap, slBase(src), inner)
		selem = func(j string) string { return fmt.Sprintf("(select %s (+ %s %s))", sarr.S, slOff(src).S, j) }
	}
	n := ite(le(slLen(dst), slen), slLen(dst), slen)
	darr := sel(heap, slBase(dst), inner)
	narr := e.freshConst("copy.arr", inner)
	e.assert(T(SBool, fmt.Sprintf("(forall ((i Int)) (! (ite (and (<= %s i) (< i (+ %s %s))) (= (select %s i) %s) (= (select %s i) (select %s i))) :pattern ((select %s i))))",
		slOff(dst).S, slOff(dst).S, n.S, narr.S, selem(fmt.Sprintf("(- i %s)", slOff(dst).S)), narr.S, darr.S, narr.S)))
	e.heapSet(c.st, comp, store(heap, slBase(dst), narr))
	return n
}

// ---------- defer / go / return ----------

func (e *fnEnc) runDefers(c *blockCtx, in *ssa.RunDefers) {
	var ds []*ssa.Defer
	for _, b := range e.fn.Blocks {
		for _, i2 := range b.Instrs {
			if d, ok := i2.(*ssa.Defer); ok {
				if !(b == c.b || b.Dominates(c.b)) {
					if !blockReaches(b, c.b) {
						continue // this defer statement cannot have been executed on a path to here
					}
					// executed on some paths only
					e.fail("conditional defer")
				}
				ds = append(ds, d)
			}
		}
	}
	sort.SliceStable(ds, func(i, j int) bool { return ds[i].Pos() > ds[j].Pos() })
	for _, d := range ds {
		e.call(c, d, &d.Call)
	}
}

func (e *fnEnc) goStmt(c *blockCtx, in *ssa.Go) {
	// a go statement is a ghost effect: its contract (if any) is checked as "effect go"
	name, _ := e.calleeName(&in.Call)
	if name == "" {
		if mc, ok := in.Call.Value.(*ssa.MakeClosure); ok {
			name = canonFuncName(mc.Fn.(*ssa.Function).String())
		}
	}
	e.effectObligations(c, in, "go", name)
	e.assume("goroutine body not explored: go " + shortCallee(name) + " in " + e.shortFuncName())
}

// effectObligations handles "effect <callee>#k requires <expr>" clauses of the current contract.
func (e *fnEnc) effectObligations(c *blockCtx, in ssa.Instruction, kind, callee string) {
	for _, cl := range e.ctr.Get("effect") {
		// syntax: effect go#0 requires expr   |  effect os.OpenFile#0 requires expr
		f := strings.SplitN(cl.Text, " ", 3)
		if len(f) < 3 || (f[1] != "requires" && f[1] != "sets") {
			continue
		}
		target := f[0]
		k := strings.LastIndex(target, "#")
		if k < 0 {
			continue
		}
		tn, tord := target[:k], target[k+1:]
		ord := 0
		if kind == "go" {
			if tn != "go" {
				continue
			}
			for _, b := range e.fn.Blocks {
				for _, i2 := range b.Instrs {
					if g, ok := i2.(*ssa.Go); ok && g != in && g.Pos() < in.Pos() {
						ord++
					}
				}
			}
		} else if kind == "builtin" {
			if tn != callee {
				continue
			}
			for _, b := range e.fn.Blocks {
				for _, i2 := range b.Instrs {
					if ci, ok := i2.(ssa.CallInstruction); ok && i2 != in && i2.Pos() < in.Pos() {
						if bb, ok := ci.Common().Value.(*ssa.Builtin); ok && bb.Name() == callee {
							ord++
						}
					}
				}
			}
		} else {
			if !strings.HasSuffix(shortCallee(callee), tn) && shortCallee(callee) != tn {
				continue
			}
			ord = e.callOrdinal(in, callee)
		}
		if fmt.Sprint(ord) != tord && tord != "*" {
			continue
		}
		if tord == "*" {
			target = fmt.Sprintf("%s#%d", tn, ord)
		}
		if f[1] == "sets" {
			// ghost update: <obj>.<ghostfield> = <expr>
			k := strings.Index(f[2], "=")
			lhs, err1 := parseExpr(strings.TrimSpace(f[2][:k]))
			rhs, err2 := parseExpr(strings.TrimSpace(f[2][k+1:]))
			if err1 != nil || err2 != nil {
				e.fail("effect sets: %v %v", err1, err2)
			}
			env := e.envAt(c.b, e.curIdx, c.st)
			sel, ok := lhs.(*ESel)
			if !ok {
				e.fail("effect sets: left side must be obj.field")
			}
			base := e.evalSpec(sel.X, env)
			si := e.structOf(ptrElem(base.typ))
			fi := si.fieldIndex(sel.Name)
			if fi < 0 || !si.fields[fi].ghost {
				e.fail("effect sets: %s is not a ghost field", sel.Name)
			}
			rv := e.evalSpec(rhs, env)
			val := rv.t
			if rv.lit != nil {
				val = e.litAs(rv.lit, si.fields[fi].sort)
			}
			e.storeField(c.st, si, base.t, fi, val)
			continue
		}
		ex, err := parseExpr(f[2])
		if err != nil {
			e.fail("effect clause: %v", err)
		}
		env := e.envAt(c.b, e.curIdx, c.st)
		for i, a := range e.curArgs {
			env.vars[fmt.Sprintf("arg%d", i)] = SVal{t: a}
			if cc := callCommon(in); cc != nil {
				as := cc.Args
				if cc.IsInvoke() {
					if i == 0 {
						env.vars["arg0"] = SVal{t: a, typ: cc.Value.Type()}
						continue
					}
					if i-1 < len(as) {
						env.vars[fmt.Sprintf("arg%d", i)] = SVal{t: a, typ: as[i-1].Type()}
					}
				} else if i < len(as) {
					env.vars[fmt.Sprintf("arg%d", i)] = SVal{t: a, typ: as[i].Type()}
				}
			}
		}
		g := e.evalBool(ex, env)
		e.obligation("effect", target, c.reach, g, f[2], e.posOf(in), false)
	}
}

func callCommon(in ssa.Instruction) *ssa.CallCommon {
	if ci, ok := in.(ssa.CallInstruction); ok {
		return ci.Common()
	}
	return nil
}

func (e *fnEnc) ret(c *blockCtx, in *ssa.Return) {
	var res []Term
	for _, r := range in.Results {
		res = append(res, e.val(r))
	}
	e.retSt = append(e.retSt, &retPoint{block: c.b, results: res, st: c.st, reach: c.reach})
	c.dead = true
}

// ---------- frame (assigns) of verified functions ----------

// assignsTargets evaluates the assigns clauses of the current contract in the
// entry state: component -> references that may be written ("*" = all).
func (e *fnEnc) assignsTargets() (map[string][]Term, bool) {
	out := map[string][]Term{}
	env := e.entryEnv(e.entrySt)
	var addObj func(si *structInfo, r Term)
	addObj = func(si *structInfo, r Term) {
		for i, f := range si.fields {
			if f.embStruct {
				addObj(e.structOf(f.typ), e.embApp(si, i, r))
				continue
			}
			comp, _ := e.fieldComp(si, i)
			out[comp] = append(out[comp], r)
		}
	}
	for _, cl := range e.ctr.Get("assigns") {
		txt := strings.TrimSpace(cl.Text)
		switch {
		case txt == "nothing":
		case txt == "heap" || txt == "*":
			return nil, true
		case strings.HasPrefix(txt, "heap except "):
			if !e.ctr.Assumed {
				e.fail("assigns %s: only allowed in assumed contracts", txt)
			}
			return nil, true
		case strings.HasSuffix(txt, ".*"):
			ex, err := parseExpr(strings.TrimSuffix(txt, ".*"))
			if err != nil {
				e.fail("assigns %s: %v", txt, err)
			}
			v := e.evalSpec(ex, env)
			addObj(e.structOf(ptrElem(v.typ)), v.t)
		case strings.HasPrefix(txt, "all "):
			t := strings.TrimSpace(txt[4:])
			k := strings.LastIndex(t, ".")
			typ, ok := e.eng.lookupType(env.pkg, t[:k])
			if !ok {
				e.fail("assigns all: unknown type %s", t[:k])
			}
			si := e.structOf(typ)
			comp, _ := e.fieldComp(si, si.fieldIndex(t[k+1:]))
			out[comp] = append(out[comp], T(SInt, "*"))
		case strings.HasPrefix(txt, "allelemsof("):
			ex, err := parseExpr(txt[len("allelemsof(") : len(txt)-1])
			if err != nil {
				e.fail("assigns %s: %v", txt, err)
			}
			v := e.evalSpec(ex, env)
			comp, _ := e.elemCompT(types.Unalias(v.typ).Underlying().(*types.Slice).Elem())
			out[comp] = append(out[comp], T(SInt, "*"))
		case strings.HasPrefix(txt, "allelems("):
			t, ok := e.eng.lookupType(env.pkg, txt[len("allelems("):len(txt)-1])
			if !ok {
				e.fail("assigns %s: unknown type", txt)
			}
			comp, _ := e.elemCompT(t)
			out[comp] = append(out[comp], T(SInt, "*"))
		case strings.HasPrefix(txt, "elems("):
			ex, err := parseExpr(txt[len("elems(") : len(txt)-1])
			if err != nil {
				e.fail("assigns %s: %v", txt, err)
			}
			v := e.evalSpec(ex, env)
			comp, _ := e.elemCompT(types.Unalias(v.typ).Underlying().(*types.Slice).Elem())
			out[comp] = append(out[comp], slBase(v.t))
		case strings.HasPrefix(txt, "mapof("):
			ex, err := parseExpr(txt[len("mapof(") : len(txt)-1])
			if err != nil {
				e.fail("assigns %s: %v", txt, err)
			}
			v := e.evalSpec(ex, env)
			ks, vs, _ := e.mapSorts(v.typ)
			dc, _, vc, _ := e.mapComps(ks, vs)
			out[dc] = append(out[dc], v.t)
			out[vc] = append(out[vc], v.t)
		default:
			if _, ok := e.eng.ghostVars[txt]; ok {
				out["Ghost.var."+txt] = append(out["Ghost.var."+txt], T(SInt, "*"))
				continue
			}
			ex, err := parseExpr(txt)
			if err != nil {
				e.fail("assigns %s: %v", txt, err)
			}
			sel, ok := ex.(*ESel)
			if !ok {
				e.fail("assigns: unsupported location %s", txt)
			}
			base := e.evalAddrBase(sel.X, env)
			si, i, ref := e.fieldLoc(base, sel.Name)
			if si.fields[i].embStruct {
				addObj(e.structOf(si.fields[i].typ), e.embApp(si, i, ref))
			} else {
				comp, _ := e.fieldComp(si, i)
				out[comp] = append(out[comp], ref)
			}
		}
	}
	return out, false
}

// frameGoals: for every component changed in st relative to entry, the
// statement "every pre-existing root location not named in assigns is unchanged".
// ok=false means the whole heap may have changed (uncontracted call).
func (e *fnEnc) frameGoals(st *state, rname string) (goals map[string]Term, ok bool) {
	targets, all := e.assignsTargets()
	goals = map[string]Term{}
	if all {
		return goals, true
	}
	if ep, has := st.m["!epoch"]; has && ep.S != "" {
		return goals, false
	}
	var comps []string
	for k := range st.m {
		if k != "!epoch" && !strings.HasPrefix(k, "Iter.") && !strings.HasPrefix(k, "Ghost.") {
			comps = append(comps, k)
		}
	}
	sort.Strings(comps)
	r := Term{rname, SInt}
	for _, comp := range comps {
		final := st.m[comp]
		entry := e.heapGet(e.entrySt, comp, final.Sort)
		if final.S == entry.S {
			continue
		}
		conds := []Term{lt(intLit(0), r), le(r, e.entrySt.alloc)}
		skip := false
		for _, a := range targets[comp] {
			if a.S == "*" {
				skip = true
			}
			conds = append(conds, not(eq(r, a)))
		}
		if skip {
			continue
		}
		parts := splitSortArgs(string(final.Sort)[len("(Array ") : len(final.Sort)-1])
		goals[comp] = imp(and(conds...), eq(sel(final, r, Sort(parts[1])), sel(entry, r, Sort(parts[1]))))
	}
	return goals, true
}

// frameObligations: memory that existed at entry and is not named in `assigns`
// is unchanged at exit (root objects; inline struct fields are flattened into
// per-field components of their own address space and are not checked).
func (e *fnEnc) frameObligations(exit *state, reach Term) {
	r := e.declare("frame.r", SInt)
	goals, ok := e.frameGoals(exit, r.S)
	if !ok {
		e.obligationNoAssume("frame", "heap", reach, tFalse, "an uncontracted call may modify the whole heap, but `assigns heap` is not declared", "")
		return
	}
	var comps []string
	for c := range goals {
		comps = append(comps, c)
	}
	sort.Strings(comps)
	for _, comp := range comps {
		e.obligationNoAssume("frame", comp, reach, goals[comp], "only locations named in assigns are modified", "")
	}
}

// frameAssumption: the frame condition about state st, instantiated at the
// frame skolem and at every pointer parameter (ground instances instead of a
// quantified fact: cheap for the solvers, enough for the frame obligations and
// for facts about the parameters), used as an implicit loop invariant.
func (e *fnEnc) frameAssumption(st *state) Term {
	insts := []string{e.declare("frame.r", SInt).S}
	for _, p := range e.fn.Params {
		if _, ok := types.Unalias(p.Type()).Underlying().(*types.Pointer); ok {
			insts = append(insts, e.vals[p].S)
		}
	}
	var cs []Term
	for _, in := range insts {
		goals, ok := e.frameGoals(st, in)
		if !ok {
			return tTrue
		}
		var comps []string
		for c := range goals {
			comps = append(comps, c)
		}
		sort.Strings(comps)
		for _, c := range comps {
			cs = append(cs, goals[c])
		}
	}
	return and(cs...)
}

// oldRef: r is a root object that existed at entry (interior addresses are not checked).
func (e *fnEnc) oldRef(r Term) Term {
	return and(lt(intLit(0), r), le(r, e.entrySt.alloc))
}

// evalAddrBase evaluates the object part of an assigns location; a captured
// struct variable (closure free variable) or an address-taken local stands for its address.
func (e *fnEnc) evalAddrBase(x Expr, env *specEnv) SVal {
	if id, ok := x.(*EIdent); ok {
		if v, ok := env.vars[id.Name]; ok && v.fvPtr {
			return SVal{t: v.t, typ: v.typ}
		}
	}
	return e.evalSpec(x, env)
}

func blockReaches(from, to *ssa.BasicBlock) bool {
	seen := map[*ssa.BasicBlock]bool{}
	stack := []*ssa.BasicBlock{from}
	for len(stack) > 0 {
		b := stack[len(stack)-1]
		stack = stack[:len(stack)-1]
		if b == to {
			return true
		}
		if seen[b] {
			continue
		}
		seen[b] = true
		stack = append(stack, b.Succs...)
	}
	return false
}

// applyCases handles a call through a function value that is known (by the
// caller's precondition) to be one of several contracted functions: each
// candidate's precondition is an obligation under "the value is this function",
// the frame of the first candidate is applied, and each candidate's
// postcondition is assumed under the same condition. Bound method values pass
// their receiver (funcrecv) as first argument.
func (e *fnEnc) applyCases(c *blockCtx, in ssa.Instruction, fv Term, cands []string, args []Term, argTypes []types.Type, cc *ssa.CallCommon) []Term {
	sig := cc.Signature()
	pre := c.st.clone()
	type cand struct {
		name string
		ctr  *FuncContract
		cond Term
		vars map[string]SVal
		sig  *types.Signature
	}
	var cs []cand
	for _, n := range cands {
		ctr := e.eng.contracts[n]
		fn := e.eng.funcs[n]
		if ctr == nil || fn == nil {
			e.fail("callsite cases: no contract or function for %s", n)
		}
		cond := eq(app(SInt, e.funcidFun(), fv), intLit(int64(e.eng.funcID(n))))
		as := args
		ats := argTypes
		if len(fn.Params) == len(args)+1 {
			// method value: receiver bound in the closure
			as = append([]Term{app(SInt, e.funcrecvFun(), fv)}, args...)
			ats = append([]types.Type{fn.Params[0].Type()}, argTypes...)
		}
		if len(fn.Params) != len(as) {
			e.fail("callsite cases: %s takes %d arguments, call has %d", n, len(fn.Params), len(as))
		}
		vars := map[string]SVal{}
		for i, p := range fn.Params {
			vars[p.Name()] = SVal{t: as[i], typ: ats[i]}
		}
		cs = append(cs, cand{n, ctr, cond, vars, fn.Signature})
	}
	ord := e.callOrdinal(in, "")
	for _, cd := range cs {
		env := &specEnv{enc: e, vars: cd.vars, st: pre, old: pre, pkg: cd.ctr.Pkg}
		for i, cl := range cd.ctr.Get("requires") {
			g := e.evalBool(cl.E, env)
			e.obligation("pre", fmt.Sprintf("%s@%s#%d:%s", shortCallee(cd.name), valLabel(cc.Value), ord, clauseLabel(cl, i)), and(c.reach, cd.cond), g, cl.Text, e.posOf(in), false)
		}
	}
	// frame of the first candidate (all candidates must declare the same assigns)
	first := cs[0]
	for _, cd := range cs[1:] {
		if fmt.Sprint(assignTexts(cd.ctr)) != fmt.Sprint(assignTexts(first.ctr)) {
			e.fail("callsite cases: %s and %s declare different assigns", first.name, cd.name)
		}
	}
	preEnv := &specEnv{enc: e, vars: first.vars, st: pre, old: pre, pkg: first.ctr.Pkg}
	e.applyAssigns(c, first.ctr, preEnv)
	res := e.resultTerms(c, in, sig, "call.fn")
	for _, cd := range cs {
		post := &specEnv{enc: e, vars: map[string]SVal{}, st: c.st, old: pre, pkg: cd.ctr.Pkg}
		for k, v := range cd.vars {
			post.vars[k] = v
		}
		rn := resultNames(cd.sig)
		for i, r := range res {
			rt := sig.Results().At(i).Type()
			post.vars[rn[i]] = SVal{t: r, typ: rt}
			post.vars[fmt.Sprintf("result%d", i)] = SVal{t: r, typ: rt}
			if len(res) == 1 {
				post.vars["result"] = SVal{t: r, typ: rt}
			}
		}
		for _, cl := range cd.ctr.Get("ensures") {
			e.assert(imp(and(c.reach, cd.cond), e.evalBool(cl.E, post)))
		}
		if cd.ctr.Assumed {
			e.assume("assumed contract: " + shortCallee(cd.name) + " (" + cd.ctr.AssumeWhy + ")")
		}
	}
	for i, r := range res {
		e.assert(e.existsAt(r, sig.Results().At(i).Type(), c.st.alloc))
	}
	return res
}

func assignTexts(c *FuncContract) []string {
	var out []string
	for _, cl := range c.Get("assigns") {
		out = append(out, cl.Text)
	}
	return out
}

// dynOrdinal numbers dynamic calls (calls through a function value) in source order.
func (e *fnEnc) dynOrdinal(in ssa.Instruction) int {
	n := 0
	for _, b := range e.fn.Blocks {
		for _, i2 := range b.Instrs {
			ci, ok := i2.(ssa.CallInstruction)
			if !ok || i2 == in {
				continue
			}
			cc := ci.Common()
			if cc.IsInvoke() || cc.StaticCallee() != nil {
				continue
			}
			if _, isB := cc.Value.(*ssa.Builtin); isB {
				continue
			}
			if i2.Pos() < in.Pos() {
				n++
			}
		}
	}
	return n
}

// alwaysObligations: `always E` clauses are checked after every call that may
// have changed the ghost state (and at exit).
func (e *fnEnc) alwaysObligations(c *blockCtx, in ssa.Instruction) {
	if !e.ghostTouched {
		return
	}
	e.ghostTouched = false
	cls := e.ctr.Get("always")
	if len(cls) == 0 {
		return
	}
	e.alwaysCount++
	env := e.envAt(c.b, e.curIdx+1, c.st)
	for i, cl := range cls {
		nm, _ := e.calleeName(callCommon(in))
		e.obligation("always", fmt.Sprintf("%s:after %s#%d", clauseLabel(cl, i), shortCallee(nm), e.alwaysCount), c.reach, e.evalBool(cl.E, env), cl.Text, e.posOf(in), false)
	}
}

// fieldLoc resolves obj.name to the struct that directly holds the field,
// following promoted fields through embedded (inline) structs.
func (e *fnEnc) fieldLoc(base SVal, name string) (*structInfo, int, Term) {
	pt, ok := types.Unalias(base.typ).Underlying().(*types.Pointer)
	if !ok || !isStructType(pt.Elem()) {
		e.fail("location base must be a pointer to struct, got %s", base.typ)
	}
	si := e.structOf(pt.Elem())
	if i := si.fieldIndex(name); i >= 0 {
		return si, i, base.t
	}
	var pkg *types.Package
	if n, ok := types.Unalias(pt.Elem()).(*types.Named); ok {
		pkg = n.Obj().Pkg()
	}
	obj, path, _ := types.LookupFieldOrMethod(pt.Elem(), true, pkg, name)
	if v, ok := obj.(*types.Var); !ok || !v.IsField() || len(path) < 2 {
		e.fail("no field %s in %s", name, pt.Elem())
	}
	ref := base.t
	cur := si
	for _, idx := range path[:len(path)-1] {
		f := cur.fields[idx]
		if !f.embStruct {
			e.fail("promoted field %s goes through a pointer", name)
		}
		ref = e.embApp(cur, idx, ref)
		cur = e.structOf(f.typ)
	}
	return cur, path[len(path)-1], ref
}

// neutralStdlib: standard-library functions without a contract that are treated
// as heap-neutral (listed as an assumption wherever used). Deliberately narrow:
// whole packages only where every exported function computes on its arguments.
func neutralStdlib(name string) bool {
	// name is like "strings.TrimSuffix", "(*strings.Builder).WriteByte", "path/filepath.Base"
	if strings.HasPrefix(name, "(") {
		return false // methods may mutate their receiver
	}
	k := strings.LastIndex(name, ".")
	if k < 0 {
		return false
	}
	pkg, fn := name[:k], name[k+1:]
	switch pkg {
	case "strings", "strconv", "unicode", "unicode/utf8", "unicode/utf16", "math", "math/bits", "path", "cmp":
		return true
	case "path/filepath":
		switch fn {
		case "Base", "Dir", "Join", "Clean", "Ext", "Rel", "ToSlash", "FromSlash", "IsAbs", "Split", "Match", "VolumeName", "IsLocal":
			return true
		}
	case "bytes":
		switch fn {
		case "Equal", "Compare", "Contains", "ContainsAny", "ContainsRune", "Count", "HasPrefix", "HasSuffix", "Index", "IndexByte", "IndexAny", "IndexRune", "LastIndex", "LastIndexByte", "EqualFold":
			return true
		}
	case "fmt":
		switch fn {
		case "Sprintf", "Sprint", "Sprintln", "Errorf":
			return true
		}
	case "log":
		switch fn {
		case "Printf", "Print", "Println":
			return true
		}
	case "errors":
		switch fn {
		case "New", "Is", "Unwrap":
			return true
		}
	case "slices":
		switch fn {
		case "Contains", "Index", "Equal", "Compare", "IsSorted", "Max", "Min", "BinarySearch":
			return true
		}
	}
	return false
}
