package main

import (
	"go/types"
	"golang.org/x/tools/go/ssa"
)

// stdlibModel gives built-in semantics to a few pure library functions.
func (e *fnEnc) stdlibModel(c *blockCtx, in ssa.Instruction, name string, args []Term, cc *ssa.CallCommon) ([]Term, bool) {
	switch name {
	case "cmp.Compare":
		a, b := args[0], args[1]
		switch a.Sort {
		case SInt, SReal:
			return []Term{ite(lt(a, b), intLit(-1), ite(lt(b, a), intLit(1), intLit(0)))}, true
		case SStr, SAStr:
			return []Term{e.strCompare(a, b)}, true
		}
	case "strings.Compare":
		return []Term{e.strCompare(args[0], args[1])}, true
	case "bytes.Compare":
		if e.strAbstract {
			return []Term{e.strCompare(e.abytes(c.st, args[0]), e.abytes(c.st, args[1]))}, true
		}
		comp, cs := e.elemCompT(types.Typ[types.Uint8])
		h := e.heapGet(c.st, comp, cs)
		mk := func(sl Term) Term {
			return app(SStr, "mk-str", sel(h, slBase(sl), ArrayOf(SInt, SInt)), slOff(sl), slLen(sl))
		}
		return []Term{e.strCompare(mk(args[0]), mk(args[1]))}, true
	}
	return nil, false
}
