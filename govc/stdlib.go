package main

import (
	"golang.org/x/tools/go/ssa"
)

// stdlibModel gives built-in semantics to a few pure library functions.
func (e *fnEnc) stdlibModel(c *blockCtx, in ssa.Instruction, name string, args []Term, cc *ssa.CallCommon) ([]Term, bool) {
	switch name {
	case "strings.Compare":
		if args[0].Sort == SStr {
			return []Term{e.strCompare(args[0], args[1])}, true
		}
	}
	return nil, false
}
