package main

import (
	"fmt"
	"go/types"
	"strings"
	"golang.org/x/tools/go/ssa"
)

// stdlibModel gives built-in semantics to a few pure library functions.
func (e *fnEnc) stdlibModel(c *blockCtx, in ssa.Instruction, name string, args []Term, cc *ssa.CallCommon) ([]Term, bool) {
	switch name {
	case "cmp.Compare":
		a, b := args[0], args[1]
		switch a.Sort {
		case SInt, SReal:
			return []Term{ite(lt(a, b), intLit(-1), ite(lt(b, a), intLit(1), intLit(0)))}, true
		case SStr, SAStr:
			return []Term{e.strCompare(a, b)}, true
		}
	case "strconv.Itoa":
		// a constant argument: the decimal numeral is computed here
		if bi, ok := e.constOfTerm(args[0]); ok && !e.strAbstract {
			return []Term{e.strLit(bi.String())}, true
		}
	case "path/filepath.Join", "path.Join":
		// Join(a, b): an uninterpreted function of its two elements
		if len(cc.Args) == 1 {
			if n, ok := e.smallConstLen(cc.Args[0]); ok && n == 2 {
				comp, cs := e.elemCompT(types.Typ[types.String])
				ss := e.sortOf(types.Typ[types.String])
				arr := sel(e.heapGet(c.st, comp, cs), slBase(args[0]), ArrayOf(SInt, ss))
				a := sel(arr, slOff(args[0]), ss)
				b := sel(arr, add(slOff(args[0]), intLit(1)), ss)
				f := e.declareFun("joinPath", []Sort{ss, ss}, ss)
				r := e.freshConst("join", ss)
				e.assert(eq(r, app(ss, f, a, b)))
				e.assert(e.rangeOf(r, types.Typ[types.String]))
				return []Term{r}, true
			}
		}
	case "strings.Contains", "strings.HasPrefix", "strings.HasSuffix":
		if lit, ok := e.litBytes(args[1]); ok && args[0].Sort == SStr && len(lit) > 0 && len(lit) <= 16 {
			x := args[0]
			n := int64(len(lit))
			matchAt := func(k Term) Term {
				var cs []Term
				for i, b := range lit {
					cs = append(cs, eq(strAt(x, add(k, intLit(int64(i)))), intLit(int64(b))))
				}
				return and(cs...)
			}
			r := e.freshConst("strmatch", SBool)
			switch name {
			case "strings.HasPrefix":
				e.assert(eq(r, and(le(intLit(n), strLen(x)), matchAt(intLit(0)))))
			case "strings.HasSuffix":
				e.assert(eq(r, and(le(intLit(n), strLen(x)), matchAt(sub(strLen(x), intLit(n))))))
			default:
				w := e.freshConst("strmatch.at", SInt)
				e.assert(imp(r, and(le(intLit(0), w), le(add(w, intLit(n)), strLen(x)), matchAt(w))))
				q := fmt.Sprintf("(forall ((k Int)) (! (=> (and (<= 0 k) (<= (+ k %d) %s)) (not %s)) :pattern ((byteAt %s k))))", n, strLen(x).S, matchAt(T(SInt, "k")).S, x.S)
				e.assert(imp(not(r), T(SBool, q)))
			}
			return []Term{r}, true
		}
	case "strings.Count":
		if lit, ok := e.litBytes(args[1]); ok && args[0].Sort == SStr && len(lit) == 1 {
			x := args[0]
			c := intLit(int64(lit[0]))
			r := e.freshConst("strcount", SInt)
			w := e.freshConst("strcount.at", SInt)
			e.assert(and(le(intLit(0), r), le(r, strLen(x))))
			// count == len  <=>  every byte is c
			q := fmt.Sprintf("(forall ((k Int)) (! (=> (and (<= 0 k) (< k %s)) (= (byteAt %s k) %s)) :pattern ((byteAt %s k))))", strLen(x).S, x.S, c.S, x.S)
			e.assert(imp(eq(r, strLen(x)), T(SBool, q)))
			e.assert(imp(not(eq(r, strLen(x))), and(le(intLit(0), w), lt(w, strLen(x)), not(eq(strAt(x, w), c)))))
			// count == 0 <=> no byte is c
			q0 := fmt.Sprintf("(forall ((k Int)) (! (=> (and (<= 0 k) (< k %s)) (not (= (byteAt %s k) %s))) :pattern ((byteAt %s k))))", strLen(x).S, x.S, c.S, x.S)
			e.assert(imp(eq(r, intLit(0)), T(SBool, q0)))
			return []Term{r}, true
		}
	case "strings.ContainsRune":
		if lit, ok := e.litBytes(args[0]); ok {
			ascii := true
			for _, b := range lit {
				if b >= 0x80 {
					ascii = false
				}
			}
			if ascii {
				rv := e.toInt(args[1], types.Typ[types.Int32])
				var cs []Term
				for _, b := range lit {
					cs = append(cs, eq(rv, intLit(int64(b))))
				}
				return []Term{or(cs...)}, true
			}
		}
	case "strings.Compare":
		return []Term{e.strCompare(args[0], args[1])}, true
	case "bytes.Compare":
		if e.strAbstract {
			return []Term{e.strCompare(e.abytes(c.st, args[0]), e.abytes(c.st, args[1]))}, true
		}
		comp, cs := e.elemCompT(types.Typ[types.Uint8])
		h := e.heapGet(c.st, comp, cs)
		mk := func(sl Term) Term {
			return app(SStr, "mk-str", sel(h, slBase(sl), ArrayOf(SInt, SInt)), slOff(sl), slLen(sl))
		}
		return []Term{e.strCompare(mk(args[0]), mk(args[1]))}, true
	}
	return nil, false
}

// litBytes recognises a string literal term.
func (e *fnEnc) litBytes(t Term) ([]byte, bool) {
	for v, lt := range e.strLits {
		if lt.S == t.S && !strings.HasPrefix(v, "astr:") {
			return []byte(v), true
		}
	}
	return nil, false
}
