package main

import (
	"golang.org/x/tools/go/ssa"
)

// stdlibModel gives built-in semantics to a few pure library functions.
func (e *fnEnc) stdlibModel(c *blockCtx, in ssa.Instruction, name string, args []Term, cc *ssa.CallCommon) ([]Term, bool) {
	switch name {
	case "strings.Compare":
		return []Term{e.strCompare(args[0], args[1])}, true
	case "bytes.Compare":
		if e.strAbstract {
			return []Term{e.strCompare(e.abytes(c.st, args[0]), e.abytes(c.st, args[1]))}, true
		}
		comp, cs := e.elemComp(SInt)
		h := e.heapGet(c.st, comp, cs)
		mk := func(sl Term) Term {
			return app(SStr, "mk-str", sel(h, slBase(sl), ArrayOf(SInt, SInt)), slOff(sl), slLen(sl))
		}
		return []Term{e.strCompare(mk(args[0]), mk(args[1]))}, true
	}
	return nil, false
}
