package main

import (
	"fmt"
	"math/big"
	"strings"
)

// Sort is an SMT-LIB sort written out.
type Sort string

const (
	SInt   Sort = "Int"
	SBool  Sort = "Bool"
	SReal  Sort = "Real"
	SStr   Sort = "Str"   // byte strings: (arr, off, len)
	SAStr  Sort = "AStr"  // abstract strings (uninterpreted, equality only)
	SSlice Sort = "Slice" // (base, off, len, cap)
	SIface Sort = "Iface" // (tag, ptr)
)

func BV(w int) Sort { return Sort(fmt.Sprintf("(_ BitVec %d)", w)) }

func (s Sort) IsBV() bool { return strings.HasPrefix(string(s), "(_ BitVec") }
func (s Sort) BVWidth() int {
	var w int
	fmt.Sscanf(string(s), "(_ BitVec %d)", &w)
	return w
}
func ArrayOf(idx, elem Sort) Sort { return Sort(fmt.Sprintf("(Array %s %s)", idx, elem)) }

// Term is an SMT-LIB term with its sort.
type Term struct {
	S    string
	Sort Sort
}

func (t Term) String() string { return t.S }

func T(sort Sort, s string) Term { return Term{s, sort} }

func app(sort Sort, f string, args ...Term) Term {
	var b strings.Builder
	b.WriteByte('(')
	b.WriteString(f)
	for _, a := range args {
		b.WriteByte(' ')
		b.WriteString(a.S)
	}
	b.WriteByte(')')
	return Term{b.String(), sort}
}

var (
	tTrue  = Term{"true", SBool}
	tFalse = Term{"false", SBool}
)

func intLit(n int64) Term {
	if n < 0 {
		return Term{fmt.Sprintf("(- %d)", -n), SInt}
	}
	return Term{fmt.Sprintf("%d", n), SInt}
}

func bigLit(n *big.Int) Term {
	if n.Sign() < 0 {
		return Term{"(- " + new(big.Int).Neg(n).String() + ")", SInt}
	}
	return Term{n.String(), SInt}
}

func realLit(n *big.Int) Term {
	if n.Sign() < 0 {
		return Term{"(- " + new(big.Int).Neg(n).String() + ".0)", SReal}
	}
	return Term{n.String() + ".0", SReal}
}

func bvLit(n *big.Int, w int) Term {
	m := new(big.Int).Lsh(big.NewInt(1), uint(w))
	v := new(big.Int).Mod(n, m)
	return Term{fmt.Sprintf("(_ bv%s %d)", v.String(), w), BV(w)}
}

func boolLit(b bool) Term {
	if b {
		return tTrue
	}
	return tFalse
}

func and(ts ...Term) Term {
	var a []Term
	for _, t := range ts {
		if t.S == "true" {
			continue
		}
		if t.S == "false" {
			return tFalse
		}
		a = append(a, t)
	}
	switch len(a) {
	case 0:
		return tTrue
	case 1:
		return a[0]
	}
	return app(SBool, "and", a...)
}

func or(ts ...Term) Term {
	var a []Term
	for _, t := range ts {
		if t.S == "false" {
			continue
		}
		if t.S == "true" {
			return tTrue
		}
		a = append(a, t)
	}
	switch len(a) {
	case 0:
		return tFalse
	case 1:
		return a[0]
	}
	return app(SBool, "or", a...)
}

func not(t Term) Term {
	switch t.S {
	case "true":
		return tFalse
	case "false":
		return tTrue
	}
	return app(SBool, "not", t)
}

func imp(a, b Term) Term {
	if a.S == "true" {
		return b
	}
	if a.S == "false" || b.S == "true" {
		return tTrue
	}
	return app(SBool, "=>", a, b)
}

func eq(a, b Term) Term {
	if a.S == b.S {
		return tTrue
	}
	return app(SBool, "=", a, b)
}

func ite(c, a, b Term) Term {
	if c.S == "true" {
		return a
	}
	if c.S == "false" {
		return b
	}
	return app(a.Sort, "ite", c, a, b)
}

func sel(arr, idx Term, elem Sort) Term { return app(elem, "select", arr, idx) }
func store(arr, idx, v Term) Term      { return app(arr.Sort, "store", arr, idx, v) }

func add(a, b Term) Term { return app(a.Sort, "+", a, b) }
func sub(a, b Term) Term { return app(a.Sort, "-", a, b) }
func le(a, b Term) Term  { return app(SBool, "<=", a, b) }
func lt(a, b Term) Term  { return app(SBool, "<", a, b) }

func pow2(n int) *big.Int { return new(big.Int).Lsh(big.NewInt(1), uint(n)) }

// sanitize makes a string usable inside an SMT symbol (we always quote with |..|).
func sanitize(s string) string {
	r := strings.NewReplacer("|", "!", "\\", "!", " ", "_", "\t", "_", "\n", "_")
	return r.Replace(s)
}

func sym(s string) string {
	for _, c := range s {
		if !(c >= 'a' && c <= 'z' || c >= 'A' && c <= 'Z' || c >= '0' && c <= '9' || c == '_' || c == '.' || c == '!' || c == '$' || c == '@') {
			return "|" + sanitize(s) + "|"
		}
	}
	return s
}
