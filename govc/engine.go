package main

import (
	"bufio"
	"fmt"
	"go/types"
	"os"
	"path/filepath"
	"sort"
	"strings"

	"golang.org/x/tools/go/packages"
	"golang.org/x/tools/go/ssa"
	"golang.org/x/tools/go/ssa/ssautil"
)

const repoModule = "cuelang.org/go"

// Engine holds the loaded program and all contracts.
type Engine struct {
	RepoDir string
	Overlay map[string][]byte

	pkgs  map[string]*packages.Package
	prog  *ssa.Program
	funcs map[string]*ssa.Function // canonical name -> function
	neutralExtra map[string]bool // callees (short names) treated as heap-neutral in an optimistic re-encoding

	files     []*ContractFile
	contracts map[string]*FuncContract // canonical function name -> contract
	specFuncs map[string]*SpecFunc
	specFnPkg map[string]string
	specTypes map[string]Sort
	specConst map[string]string
	ghosts    map[string][]*GhostField // named struct type full name -> ghost fields
	bvTypes   map[string]bool
	axioms    []*Lemma
	axiomPkg  map[*Lemma]string
	lemmas    []*Lemma
	globalInvs map[string][]*Lemma // package -> global invariants
	monitors   map[string][]*Monitor // package -> monitors
	ghostVars  map[string]TypeExpr   // ghost state variables (global names)
	lemmaPkg  map[*Lemma]string
	rawSMT    []string

	funcIDs   map[string]int
	typeIDs   map[string]int // type string -> interface tag
	typeByID  []types.Type
	warnings  []string
}

func NewEngine(repo string) *Engine {
	return &Engine{
		RepoDir:   repo,
		pkgs:      map[string]*packages.Package{},
		funcs:     map[string]*ssa.Function{},
		contracts: map[string]*FuncContract{},
		specFuncs: map[string]*SpecFunc{},
		specFnPkg: map[string]string{},
		specTypes: map[string]Sort{"int": SInt, "bool": SBool, "real": SReal},
		specConst: map[string]string{},
		ghosts:    map[string][]*GhostField{},
		bvTypes:   map[string]bool{},
		axiomPkg:  map[*Lemma]string{},
		globalInvs: map[string][]*Lemma{},
		monitors:   map[string][]*Monitor{},
		ghostVars:  map[string]TypeExpr{},
		lemmaPkg:  map[*Lemma]string{},
		typeIDs:   map[string]int{},
		funcIDs:   map[string]int{},
		typeByID:  []types.Type{nil},
	}
}

// Load loads the given package patterns (relative import paths inside the repo
// module, or full paths) with -tags=verif and builds SSA.
func (e *Engine) Load(patterns []string) error {
	cfg := &packages.Config{
		Mode:       packages.LoadAllSyntax,
		Dir:        e.RepoDir,
		BuildFlags: []string{"-tags=verif"},
		Env:        append(os.Environ(), "GOFLAGS=-mod=mod", "GOPROXY=off"),
		Overlay:    e.Overlay,
	}
	pkgs, err := packages.Load(cfg, patterns...)
	if err != nil {
		return err
	}
	var errs []string
	packages.Visit(pkgs, nil, func(p *packages.Package) {
		for _, er := range p.Errors {
			errs = append(errs, er.Error())
		}
		e.pkgs[p.PkgPath] = p
	})
	if len(errs) > 0 {
		return fmt.Errorf("load errors: %s", strings.Join(errs, "; "))
	}
	prog, _ := ssautil.AllPackages(pkgs, ssa.GlobalDebug)
	prog.Build()
	e.prog = prog
	for _, sp := range prog.AllPackages() {
		for _, m := range sp.Members {
			switch m := m.(type) {
			case *ssa.Function:
				e.addFunc(m)
			case *ssa.Type:
				t := m.Type()
				for _, tt := range []types.Type{t, types.NewPointer(t)} {
					ms := prog.MethodSets.MethodSet(tt)
					for i := 0; i < ms.Len(); i++ {
						if f := prog.MethodValue(ms.At(i)); f != nil {
							e.addFunc(f)
						}
					}
				}
				// generic types: methods via FuncValue
				if n, ok := t.(*types.Named); ok && n.TypeParams().Len() > 0 {
					for i := 0; i < n.NumMethods(); i++ {
						if f := prog.FuncValue(n.Method(i)); f != nil {
							e.addFunc(f)
						}
					}
				}
			}
		}
	}
	return nil
}

func (e *Engine) addFunc(f *ssa.Function) {
	if f == nil || f.Synthetic != "" && !strings.Contains(f.Synthetic, "instance") {
		if f == nil || f.Blocks == nil {
			return
		}
	}
	name := canonFuncName(f.String())
	if _, ok := e.funcs[name]; !ok {
		e.funcs[name] = f
	}
	for _, a := range f.AnonFuncs {
		e.addFunc(a)
	}
}

// canonFuncName strips type-parameter lists.
func canonFuncName(s string) string {
	for {
		i := strings.Index(s, "[")
		if i < 0 {
			return s
		}
		depth := 0
		j := i
		for ; j < len(s); j++ {
			if s[j] == '[' {
				depth++
			} else if s[j] == ']' {
				depth--
				if depth == 0 {
					break
				}
			}
		}
		if j >= len(s) {
			return s
		}
		s = s[:i] + s[j+1:]
	}
}

// qualifyFuncName turns a name as written in a contract file into canonical form.
//
//	Name            -> pkg.Name
//	(*T).M, (T).M   -> (*pkg.T).M
//	path.Name       -> path.Name        (path contains '/' or is a known package)
//	path.(*T).M     -> (*path.T).M
func qualifyFuncName(pkg, name string) string {
	name = strings.TrimSpace(name)
	if i := strings.Index(name, ".("); i >= 0 && !strings.HasPrefix(name, "(") {
		// path.(*T).M
		path := name[:i]
		rest := name[i+1:] // (*T).M
		return qualifyFuncName(path, rest)
	}
	if strings.HasPrefix(name, "(") {
		j := strings.Index(name, ")")
		recv := name[1:j]
		star := ""
		if strings.HasPrefix(recv, "*") {
			star = "*"
			recv = recv[1:]
		}
		if !strings.Contains(recv, ".") {
			recv = pkg + "." + recv
		}
		return "(" + star + recv + ")" + name[j+1:]
	}
	if strings.Contains(name, "/") || strings.Count(name, ".") >= 1 && !strings.Contains(name, "$") {
		// already qualified (path.Name). Note: "Outer$1" stays unqualified.
		if k := strings.LastIndex(name, "."); k >= 0 {
			return name
		}
	}
	if strings.Contains(name, ".") {
		return name
	}
	return pkg + "." + name
}

// LoadContracts reads every verif_contracts*.go file in loaded repo packages
// plus the given external .spec files.
func (e *Engine) LoadContracts(extraSpecFiles []string) error {
	var paths []string
	for p := range e.pkgs {
		paths = append(paths, p)
	}
	sort.Strings(paths)
	for _, pp := range paths {
		p := e.pkgs[pp]
		if !strings.HasPrefix(pp, repoModule) {
			continue
		}
		for _, f := range p.GoFiles {
			if !strings.HasPrefix(filepath.Base(f), "verif_contracts") {
				continue
			}
			var data []byte
			if o, ok := e.Overlay[f]; ok {
				data = o
			} else {
				d, err := os.ReadFile(f)
				if err != nil {
					return err
				}
				data = d
			}
			if err := e.addContractText(pp, f, string(data), true); err != nil {
				return err
			}
		}
	}
	for _, f := range extraSpecFiles {
		data, err := os.ReadFile(f)
		if err != nil {
			return err
		}
		pkg := ""
		// first line may say: package <path>
		if err := e.addContractText(pkg, f, string(data), false); err != nil {
			return err
		}
	}
	return nil
}

func (e *Engine) addContractText(pkg, path, text string, goFile bool) error {
	var lines []string
	var nos []int
	sc := bufio.NewScanner(strings.NewReader(text))
	sc.Buffer(make([]byte, 1<<20), 1<<20)
	n := 0
	for sc.Scan() {
		n++
		l := sc.Text()
		t := strings.TrimSpace(l)
		if goFile {
			if !strings.HasPrefix(t, "//@") {
				continue
			}
			l = strings.TrimPrefix(t, "//@")
		} else {
			if strings.HasPrefix(t, "package ") {
				pkg = strings.TrimSpace(strings.TrimPrefix(t, "package "))
				continue
			}
			if strings.HasPrefix(t, "#") {
				continue
			}
		}
		lines = append(lines, l)
		nos = append(nos, n)
	}
	cf, err := parseContractLines(pkg, path, lines, nos)
	if err != nil {
		return err
	}
	e.files = append(e.files, cf)
	for _, fc := range cf.Funcs {
		name := qualifyFuncName(cf.Pkg, e.expandAlias(cf.Pkg, fc.Name))
		if old, dup := e.contracts[name]; dup {
			return fmt.Errorf("%s: duplicate contract for %s (also at %s)", fc.Line, name, old.Line)
		}
		fc.Pkg = cf.Pkg
		e.contracts[name] = fc
	}
	for _, sf := range cf.SpecFuncs {
		if _, dup := e.specFuncs[sf.Name]; dup {
			return fmt.Errorf("%s: duplicate spec func %s", sf.Line, sf.Name)
		}
		e.specFuncs[sf.Name] = sf
		e.specFnPkg[sf.Name] = cf.Pkg
	}
	for k, v := range cf.SpecTypes {
		e.specTypes[k] = Sort(v)
	}
	for k, v := range cf.Consts {
		e.specConst[k] = v
	}
	for _, g := range cf.Ghosts {
		tn := g.Type
		if !strings.Contains(tn, "/") && !strings.Contains(tn, ".") {
			tn = cf.Pkg + "." + tn
		}
		e.ghosts[tn] = append(e.ghosts[tn], g)
	}
	for _, b := range cf.BVTypes {
		if !strings.Contains(b, ".") {
			b = cf.Pkg + "." + b
		}
		e.bvTypes[b] = true
	}
	for _, a := range cf.Axioms {
		e.axioms = append(e.axioms, a)
		e.axiomPkg[a] = cf.Pkg
	}
	e.globalInvs[cf.Pkg] = append(e.globalInvs[cf.Pkg], cf.Invs...)
	e.monitors[cf.Pkg] = append(e.monitors[cf.Pkg], cf.Monitors...)
	for _, g := range cf.GhostVars {
		e.ghostVars[g.Name] = g.T
	}
	for _, l := range cf.Lemmas {
		e.lemmas = append(e.lemmas, l)
		e.lemmaPkg[l] = cf.Pkg
	}
	e.rawSMT = append(e.rawSMT, cf.SMT...)
	return nil
}

func (e *Engine) typeID(t types.Type) int {
	k := types.TypeString(t, nil)
	if id, ok := e.typeIDs[k]; ok {
		return id
	}
	id := len(e.typeByID)
	e.typeIDs[k] = id
	e.typeByID = append(e.typeByID, t)
	return id
}

// funcID numbers functions by canonical name (identity of function values).
func (e *Engine) funcID(name string) int {
	if id, ok := e.funcIDs[name]; ok {
		return id
	}
	id := len(e.funcIDs) + 1
	e.funcIDs[name] = id
	return id
}

func (e *Engine) warnf(f string, a ...any) {
	e.warnings = append(e.warnings, fmt.Sprintf(f, a...))
}

// lookupType resolves a type written in a contract ("*Num", "apd.Decimal",
// "cuelang.org/go/cue/token.Pos", "[]index") relative to package pkg.
func (e *Engine) lookupType(pkg string, text string) (types.Type, bool) {
	text = strings.TrimSpace(text)
	if strings.HasPrefix(text, "*") {
		t, ok := e.lookupType(pkg, text[1:])
		if !ok {
			return nil, false
		}
		return types.NewPointer(t), true
	}
	if strings.HasPrefix(text, "[]") {
		t, ok := e.lookupType(pkg, text[2:])
		if !ok {
			return nil, false
		}
		return types.NewSlice(t), true
	}
	switch text {
	case "string":
		return types.Typ[types.String], true
	case "byte":
		return types.Typ[types.Uint8], true
	case "rune":
		return types.Typ[types.Int32], true
	case "error":
		return types.Universe.Lookup("error").Type(), true
	case "any":
		return types.Universe.Lookup("any").Type(), true
	}
	for _, b := range types.Typ {
		if b.Name() == text && b.Kind() != types.Invalid {
			return b, true
		}
	}
	pkgPath, name := pkg, text
	if k := strings.LastIndex(text, "."); k >= 0 {
		pkgPath, name = text[:k], text[k+1:]
		if !strings.Contains(pkgPath, "/") {
			// short package name: resolve through imports of pkg, then any loaded package with that name
			if p, ok := e.pkgs[pkg]; ok {
				for ip, imp := range p.Imports {
					if imp.Name == pkgPath {
						pkgPath = ip
						break
					}
				}
			}
			if _, ok := e.pkgs[pkgPath]; !ok {
				for ip, p := range e.pkgs {
					if p.Name == pkgPath {
						pkgPath = ip
						break
					}
				}
			}
		}
	}
	p, ok := e.pkgs[pkgPath]
	if !ok || p.Types == nil {
		return nil, false
	}
	obj := p.Types.Scope().Lookup(name)
	if tn, ok := obj.(*types.TypeName); ok {
		return tn.Type(), true
	}
	return nil, false
}

// expandAlias replaces a leading package alias (as imported by pkg) in a
// function name written in a contract file by the full import path:
// "module.EscapePath" -> "cuelang.org/go/mod/module.EscapePath",
// "(module.Version).M" -> "(cuelang.org/go/mod/module.Version).M".
func (e *Engine) expandAlias(pkg, name string) string {
	name = strings.TrimSpace(name)
	p, ok := e.pkgs[pkg]
	if !ok {
		return name
	}
	resolve := func(alias string) string {
		for ip, imp := range p.Imports {
			if imp.Name == alias {
				return ip
			}
		}
		return ""
	}
	if strings.HasPrefix(name, "(") {
		j := strings.Index(name, ")")
		recv := name[1:j]
		star := ""
		if strings.HasPrefix(recv, "*") {
			star, recv = "*", recv[1:]
		}
		if k := strings.Index(recv, "."); k > 0 && !strings.Contains(recv, "/") {
			if ip := resolve(recv[:k]); ip != "" {
				return "(" + star + ip + recv[k:] + ")" + name[j+1:]
			}
		}
		return name
	}
	if k := strings.Index(name, "."); k > 0 && !strings.Contains(name[:k], "/") && !strings.Contains(name, "$") {
		if ip := resolve(name[:k]); ip != "" {
			return ip + name[k:]
		}
	}
	return name
}
