package main

import (
	"fmt"
	"go/types"
	"strings"

	"golang.org/x/tools/go/ssa"
)

// Inlining of small helper functions that have no contract.
//
// A verified function that calls a function of its own package for which no
// contract exists would otherwise havoc the heap at that call and learn nothing
// about the result. When the callee is small, loop-free and uses no construct
// outside the straight-line subset, its body is encoded in place instead: the
// caller is then checked against what the helper really does — a harmless
// "extract function" refactoring keeps verifying, a defect hidden in a new
// fast-path helper fails the caller's obligations.

const inlineMaxInstrs = 120

func (e *fnEnc) inlinable(g *ssa.Function) bool {
	if g == nil || len(g.Blocks) == 0 || g == e.fn || e.inlDepth >= 2 {
		return false
	}
	if g.Pkg == nil || e.fn.Pkg == nil || g.Pkg.Pkg.Path() != e.fn.Pkg.Pkg.Path() && e.ns == "" && !strings.HasPrefix(g.Pkg.Pkg.Path(), repoModule) {
		return false
	}
	if g.Pkg == nil || !strings.HasPrefix(g.Pkg.Pkg.Path(), repoModule) {
		return false
	}
	if g.Signature.TypeParams() != nil || len(g.TypeArgs()) > 0 || len(g.FreeVars) > 0 || g.Recover != nil {
		return false
	}
	n := 0
	// acyclic?
	state := map[*ssa.BasicBlock]int{}
	var cyclic bool
	var dfs func(b *ssa.BasicBlock)
	dfs = func(b *ssa.BasicBlock) {
		state[b] = 1
		for _, s := range b.Succs {
			if state[s] == 1 {
				cyclic = true
			} else if state[s] == 0 {
				dfs(s)
			}
		}
		state[b] = 2
	}
	dfs(g.Blocks[0])
	if cyclic {
		return false
	}
	for _, b := range g.Blocks {
		for _, in := range b.Instrs {
			n++
			switch x := in.(type) {
			case *ssa.Defer, *ssa.Go, *ssa.RunDefers, *ssa.MakeClosure, *ssa.Select, *ssa.Range, *ssa.Next, *ssa.Send:
				return false
			case ssa.CallInstruction:
				if callee := x.Common().StaticCallee(); callee == g {
					return false
				}
			}
		}
	}
	return n <= inlineMaxInstrs
}

func (e *fnEnc) inlineCall(c *blockCtx, in ssa.Instruction, cc *ssa.CallCommon, name string, args []Term) ([]Term, bool) {
	if cc.IsInvoke() {
		return nil, false
	}
	g := cc.StaticCallee()
	if !e.inlinable(g) || len(g.Params) != len(args) {
		return nil, false
	}
	e.assume("inlined (no contract): " + shortCallee(name) + " in " + e.shortFuncNameOuter())
	// save the caller's encoding context
	sv := struct {
		fn                     *ssa.Function
		ctr                    *FuncContract
		paramVal               map[string]SVal
		edge                   map[[2]int]Term
		backEdge               map[[2]int]bool
		curBlock, hostBlock    *ssa.BasicBlock
		curIdx                 int
		retSt                  []*retPoint
		ns                     string
		inlEntry               *retPoint
		mayPanic, noBounds     bool
		curArgs                []Term
		curBindings            map[string]SVal
		pkg                    string
	}{e.fn, e.ctr, e.paramVal, e.edge, e.backEdge, e.curBlock, e.hostBlock, e.curIdx, e.retSt, e.ns, e.inlEntry, e.mayPanic, e.noBounds, e.curArgs, e.curBindings, e.pkg}
	e.inlCount++
	e.inlDepth++
	if e.hostBlock == nil {
		e.hostBlock = e.curBlock
	}
	e.fn = g
	e.ctr = &FuncContract{Name: name, Options: map[string]string{}, Pkg: g.Pkg.Pkg.Path()}
	e.pkg = g.Pkg.Pkg.Path()
	e.ns = fmt.Sprintf("i%d.", e.inlCount)
	// the helper is not under contract: its body is a model of its effect on the
	// caller, and its own index/slice expressions are not obligations of the caller
	e.noBounds = true
	e.edge = map[[2]int]Term{}
	e.backEdge = map[[2]int]bool{}
	e.retSt = nil
	e.inlEntry = &retPoint{st: c.st, reach: c.reach}
	e.paramVal = map[string]SVal{}
	for i, p := range g.Params {
		e.vals[p] = args[i]
		e.paramVal[p.Name()] = SVal{t: args[i], typ: p.Type()}
	}
	restore := func() {
		e.fn, e.ctr, e.paramVal, e.edge, e.backEdge = sv.fn, sv.ctr, sv.paramVal, sv.edge, sv.backEdge
		e.curBlock, e.hostBlock, e.curIdx, e.retSt, e.ns, e.inlEntry = sv.curBlock, sv.hostBlock, sv.curIdx, sv.retSt, sv.ns, sv.inlEntry
		e.mayPanic, e.noBounds, e.curArgs, e.curBindings, e.pkg = sv.mayPanic, sv.noBounds, sv.curArgs, sv.curBindings, sv.pkg
	}
	// a construct outside the subset inside the helper: give up on inlining (the
	// definitions emitted so far are facts about a prefix of its execution and stay)
	failed := false
	func() {
		defer func() {
			if r := recover(); r != nil {
				if _, ok := r.(outOfSubset); ok {
					failed = true
					return
				}
				panic(r)
			}
		}()
		e.encodeHelperBlocks(g)
	}()
	if failed {
		restore()
		e.inlDepth--
		delete(e.assumptions, "inlined (no contract): "+shortCallee(name)+" in "+e.shortFuncNameOuter())
		return nil, false
	}
	rets := e.retSt
	restore()
	e.inlDepth--
	return e.joinInlined(c, g, rets)
}

func (e *fnEnc) encodeHelperBlocks(g *ssa.Function) {
	// blocks in reverse post order
	var post []*ssa.BasicBlock
	seen := map[*ssa.BasicBlock]bool{}
	var dfs func(b *ssa.BasicBlock)
	dfs = func(b *ssa.BasicBlock) {
		seen[b] = true
		for _, s := range b.Succs {
			if !seen[s] {
				dfs(s)
			}
		}
		post = append(post, b)
	}
	dfs(g.Blocks[0])
	for i := len(post) - 1; i >= 0; i-- {
		e.encodeBlock(post[i])
	}
}

func (e *fnEnc) joinInlined(c *blockCtx, g *ssa.Function, rets []*retPoint) ([]Term, bool) {
	if len(rets) == 0 {
		c.dead = true
		return nil, true
	}
	// join the return points
	label := fmt.Sprintf("inl%d", e.inlCount)
	if len(rets) == 1 {
		c.st = rets[0].st
		c.reach = rets[0].reach
		return rets[0].results, true
	}
	var conds []Term
	for _, r := range rets {
		conds = append(conds, r.reach)
	}
	c.st = e.mergeStatesNamed(label, func(yield func(*state, Term)) {
		for _, r := range rets {
			yield(r.st, r.reach)
		}
	})
	rc := e.freshConst("reach."+label, SBool)
	e.assert(eq(rc, or(conds...)))
	c.reach = rc
	var res []Term
	sig := g.Signature
	for j := 0; j < sig.Results().Len(); j++ {
		v := e.freshConst(fmt.Sprintf("%s.r%d", label, j), e.sortOf(sig.Results().At(j).Type()))
		for _, r := range rets {
			e.assert(imp(r.reach, eq(v, r.results[j])))
		}
		res = append(res, v)
	}
	return res, true
}

// shortFuncNameOuter: the verified function (not the one being inlined).
func (e *fnEnc) shortFuncNameOuter() string { return e.shortFuncName() }

var _ = types.Typ
