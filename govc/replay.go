package main

// tryReplay renders the solver's model as a Go test against the real code
// (per-family adapters) and runs it. It returns the test source, its output
// and whether the failure was reproduced.
func tryReplay(id string, o *Obligation, r SolveResult, eng *Engine, cfg *PropConfig) (test, out string, reproduced bool) {
	return "", "", false
}
