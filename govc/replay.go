package main

import (
	"encoding/json"
	"fmt"
	"go/types"
	"os"
	"os/exec"
	"path/filepath"
	"strconv"
	"strings"
	"time"

	"golang.org/x/tools/go/ssa"
)

// tryReplay renders the solver's model as a Go test against the real code and
// runs it (go test -overlay, nothing is written to the repository). It returns
// the test source, its output and whether the failure was reproduced.
//
// Adapter "scalar": functions whose parameters (and receiver) are integers,
// booleans and strings. The model's arguments are passed to the real function:
//   - for bounds/div0/panic/assert-type obligations the failure is reproduced
//     when the real call panics;
//   - for postconditions the failure is reproduced when the real function
//     returns exactly the results of the model's execution (the execution the
//     solver found is real, and it violates the postcondition).
//
// Obligations inside loops (invariant preservation) describe an arbitrary
// iteration, not an execution from the entry: no replay is attempted for them.
func tryReplay(id string, o *Obligation, r SolveResult, eng *Engine, cfg *PropConfig) (test, out string, reproduced bool) {
	e := o.enc
	if e == nil || e.fn == nil {
		return "", "", false
	}
	if cfg != nil && cfg.Replay == "bounds" && o.Kind == "post" {
		if t, out, ok := tryReplayBounds(id, o, r, eng); t != "" || out != "" {
			return t, out, ok
		}
	}
	switch o.Kind {
	case "post", "bounds", "div0", "panic", "assert-type", "pre":
	default:
		return "", "", false
	}
	if len(e.loops) > 0 && o.Kind != "post" {
		// the obligation may sit inside a loop body: its model is not an execution prefix
		for _, li := range e.loops {
			_ = li
		}
	}
	fn := e.fn
	if fn.Pkg == nil || !strings.HasPrefix(fn.Pkg.Pkg.Path(), repoModule) {
		return "", "", false
	}
	// all parameters scalar?
	var terms []string
	type arg struct {
		name string
		typ  types.Type
		term Term
	}
	var args []arg
	for _, p := range fn.Params {
		if !scalarType(p.Type()) {
			return "", "", false
		}
		t := e.vals[p]
		args = append(args, arg{p.Name(), p.Type(), t})
		if t.Sort == SStr {
			terms = append(terms, fmt.Sprintf("(s-len %s)", t.S))
		} else {
			terms = append(terms, t.S)
		}
	}
	if len(fn.FreeVars) > 0 {
		return "", "", false
	}
	// results of the model's execution
	sig := fn.Signature
	var resTerms []Term
	if o.Kind == "post" && len(e.retSt) > 0 {
		for i := 0; i < sig.Results().Len(); i++ {
			var rt Term
			if len(e.retSt) == 1 {
				rt = e.retSt[0].results[i]
			} else {
				rt = Term{sym(fmt.Sprintf("ret.%d", i)), e.sortOf(sig.Results().At(i).Type())}
			}
			resTerms = append(resTerms, rt)
			switch {
			case rt.Sort == SStr:
				terms = append(terms, fmt.Sprintf("(s-len %s)", rt.S))
			case rt.Sort == SIface:
				terms = append(terms, fmt.Sprintf("(if-tag %s)", rt.S))
			default:
				terms = append(terms, rt.S)
			}
		}
	}
	vals, ok := getValues(o, terms)
	if !ok {
		return "", "", false
	}
	// string contents
	strBytes := map[string][]byte{}
	var byteTerms []string
	var byteKeys []string
	collect := func(t Term, lenStr string) bool {
		n, err := strconv.Atoi(lenStr)
		if err != nil || n < 0 || n > 256 {
			return false
		}
		for i := 0; i < n; i++ {
			byteTerms = append(byteTerms, fmt.Sprintf("(select (s-arr %s) (+ (s-off %s) %d))", t.S, t.S, i))
			byteKeys = append(byteKeys, fmt.Sprintf("%s#%d", t.S, i))
		}
		strBytes[t.S] = make([]byte, n)
		return true
	}
	k := 0
	for _, a := range args {
		if a.term.Sort == SStr {
			if !collect(a.term, vals[k]) {
				return "", "", false
			}
		}
		k++
	}
	for _, rt := range resTerms {
		if rt.Sort == SStr {
			if !collect(rt, vals[k]) {
				return "", "", false
			}
		}
		k++
	}
	if len(byteTerms) > 0 {
		bv, ok := getValues(o, append(append([]string{}, terms...), byteTerms...))
		if !ok {
			return "", "", false
		}
		vals = bv[:len(terms)]
		for i, key := range byteKeys {
			h := strings.LastIndex(key, "#")
			idx, _ := strconv.Atoi(key[h+1:])
			b, err := strconv.Atoi(bv[len(terms)+i])
			if err != nil || b < 0 || b > 255 {
				return "", "", false
			}
			strBytes[key[:h]][idx] = byte(b)
		}
	}
	// render the call
	goLit := func(t Term, typ types.Type, v string) (string, bool) {
		tn := types.TypeString(typ, func(p *types.Package) string {
			if p.Path() == fn.Pkg.Pkg.Path() {
				return ""
			}
			return p.Name()
		})
		switch {
		case t.Sort == SStr:
			return fmt.Sprintf("%s(%q)", tn, string(strBytes[t.S])), true
		case t.Sort == SBool:
			return v, v == "true" || v == "false"
		default:
			n, ok := parseSMTInt(v)
			if !ok {
				return "", false
			}
			return fmt.Sprintf("%s(%s)", tn, n), true
		}
	}
	var callArgs []string
	k = 0
	for _, a := range args {
		l, ok := goLit(a.term, a.typ, vals[k])
		if !ok {
			return "", "", false
		}
		callArgs = append(callArgs, l)
		k++
	}
	call := ""
	if fn.Signature.Recv() != nil {
		call = fmt.Sprintf("(%s).%s(%s)", callArgs[0], fn.Name(), strings.Join(callArgs[1:], ", "))
	} else {
		call = fmt.Sprintf("%s(%s)", fn.Name(), strings.Join(callArgs, ", "))
	}
	// expected results (as printed by the test)
	var expect []string
	for i, rt := range resTerms {
		v := vals[k]
		k++
		typ := sig.Results().At(i).Type()
		switch {
		case rt.Sort == SStr:
			expect = append(expect, fmt.Sprintf("%q", string(strBytes[rt.S])))
		case rt.Sort == SBool:
			expect = append(expect, v)
		case rt.Sort == SIface:
			if v == "0" {
				expect = append(expect, "<nil>")
			} else {
				expect = append(expect, "<non-nil>")
			}
		case isIntegerType(typ):
			n, ok := parseSMTInt(v)
			if !ok {
				return "", "", false
			}
			expect = append(expect, n)
		default:
			expect = append(expect, "?")
		}
	}
	var fmts, outs []string
	for i := 0; i < sig.Results().Len(); i++ {
		rt := sig.Results().At(i).Type()
		switch {
		case isStringType(rt):
			fmts = append(fmts, "%q")
			outs = append(outs, fmt.Sprintf("string(r%d)", i))
		case isIfaceType(rt):
			fmts = append(fmts, "%s")
			outs = append(outs, fmt.Sprintf("nilness(r%d)", i))
		case isIntegerType(rt):
			fmts = append(fmts, "%d")
			outs = append(outs, fmt.Sprintf("int64(r%d)", i))
		default:
			fmts = append(fmts, "%v")
			outs = append(outs, fmt.Sprintf("r%d", i))
		}
	}
	var lhs []string
	for i := 0; i < sig.Results().Len(); i++ {
		lhs = append(lhs, fmt.Sprintf("r%d", i))
	}
	assign := ""
	if len(lhs) > 0 {
		assign = strings.Join(lhs, ", ") + " := "
	}
	pkgName := fn.Pkg.Pkg.Name()
	src := fmt.Sprintf(`package %s

import (
	"fmt"
	"testing"
)

func nilness(v any) string {
	if v == nil {
		return "<nil>"
	}
	return "<non-nil>"
}

// generated by /verif/govc from the model of obligation
// %s
func TestGovcReplay(t *testing.T) {
	defer func() {
		if r := recover(); r != nil {
			fmt.Printf("REPLAY-PANIC: %%v\n", r)
		}
	}()
	%s%s
	fmt.Printf("REPLAY-RESULT: %s\n"%s)
}
`, pkgName, o.Name, assign, call, strings.Join(fmts, "|"), prefixComma(outs))
	_ = nilnessUsed
	dir := filepath.Dir(eng.prog.Fset.Position(fn.Pos()).Filename)
	tmp, err := os.MkdirTemp("", "govc-replay")
	if err != nil {
		return src, err.Error(), false
	}
	defer os.RemoveAll(tmp)
	testFile := filepath.Join(tmp, "zz_govc_replay_test.go")
	os.WriteFile(testFile, []byte(src), 0o644)
	ov := map[string]any{"Replace": map[string]string{filepath.Join(dir, "zz_govc_replay_test.go"): testFile}}
	ovData, _ := json.Marshal(ov)
	ovFile := filepath.Join(tmp, "overlay.json")
	os.WriteFile(ovFile, ovData, 0o644)
	rel, _ := filepath.Rel(eng.RepoDir, dir)
	cmd := exec.Command("go", "test", "-overlay", ovFile, "-vet=off", "-timeout", "60s", "-count=1", "-run", "^TestGovcReplay$", "./"+rel)
	cmd.Dir = eng.RepoDir
	cmd.Env = append(os.Environ(), "GOFLAGS=-mod=mod", "GOPROXY=off")
	done := make(chan struct{})
	var outb []byte
	go func() { outb, _ = cmd.CombinedOutput(); close(done) }()
	select {
	case <-done:
	case <-time.After(180 * time.Second):
		if cmd.Process != nil {
			cmd.Process.Kill()
		}
		return src, "replay timed out", false
	}
	out = string(outb)
	switch o.Kind {
	case "bounds", "div0", "panic", "assert-type":
		return src, out, strings.Contains(out, "REPLAY-PANIC")
	case "pre":
		return src, out, false
	}
	want := "REPLAY-RESULT: " + strings.Join(expect, "|")
	for _, l := range strings.Split(out, "\n") {
		if strings.TrimSpace(l) == want {
			return src, out + "\n(model's execution reproduced: the real function returns the results of the counterexample)", !strings.Contains(want, "?")
		}
	}
	return src, out + "\n(expected from the model: " + want + ")", false
}

var nilnessUsed = true

func prefixComma(a []string) string {
	if len(a) == 0 {
		return ""
	}
	return ", " + strings.Join(a, ", ")
}

func scalarType(t types.Type) bool {
	b, ok := types.Unalias(t).Underlying().(*types.Basic)
	return ok && b.Info()&(types.IsInteger|types.IsBoolean|types.IsString) != 0
}
func isStringType(t types.Type) bool {
	b, ok := types.Unalias(t).Underlying().(*types.Basic)
	return ok && b.Info()&types.IsString != 0
}
func isIfaceType(t types.Type) bool {
	_, ok := types.Unalias(t).Underlying().(*types.Interface)
	return ok
}

// parseSMTInt understands 5, (- 5), #x0f, #b101, (_ bv5 8).
func parseSMTInt(v string) (string, bool) {
	v = strings.TrimSpace(v)
	switch {
	case strings.HasPrefix(v, "(- ") && strings.HasSuffix(v, ")"):
		n, ok := parseSMTInt(v[3 : len(v)-1])
		return "-" + n, ok
	case strings.HasPrefix(v, "#x"):
		n, err := strconv.ParseUint(v[2:], 16, 64)
		return fmt.Sprint(n), err == nil
	case strings.HasPrefix(v, "#b"):
		n, err := strconv.ParseUint(v[2:], 2, 64)
		return fmt.Sprint(n), err == nil
	case strings.HasPrefix(v, "(_ bv"):
		f := strings.Fields(v[5:])
		if len(f) > 0 {
			return f[0], true
		}
	}
	if _, err := strconv.ParseInt(v, 10, 64); err == nil {
		return v, true
	}
	if _, err := strconv.ParseUint(v, 10, 64); err == nil {
		return v, true
	}
	return "", false
}

// getValues re-runs the obligation's query (without the quantified background
// axioms when the model came from the counterexample search) and asks z3 for
// the values of the given terms.
func getValues(o *Obligation, terms []string) ([]string, bool) {
	if len(terms) == 0 {
		return nil, true
	}
	o2 := *o
	o2.NoAxioms = true
	script := o2.Script(false)
	script += "(get-value (" + strings.Join(terms, " ") + "))\n"
	tmp, err := os.CreateTemp("", "govc-getvalue-*.smt2")
	if err != nil {
		return nil, false
	}
	defer os.Remove(tmp.Name())
	tmp.WriteString(script)
	tmp.Close()
	cmd := exec.Command("z3-new", "-smt2", "-T:30", tmp.Name())
	outb, _ := cmd.Output()
	out := string(outb)
	if !strings.HasPrefix(strings.TrimSpace(out), "sat") {
		return nil, false
	}
	body := out[strings.Index(out, "sat")+3:]
	// parse ((term value) (term value) ...)
	vals := parsePairs(body)
	if len(vals) != len(terms) {
		return nil, false
	}
	return vals, true
}

// parsePairs extracts the values of a (get-value ...) answer in order.
func parsePairs(s string) []string {
	s = strings.TrimSpace(s)
	if !strings.HasPrefix(s, "(") {
		return nil
	}
	var out []string
	i := 1
	for i < len(s) {
		for i < len(s) && (s[i] == ' ' || s[i] == '\n') {
			i++
		}
		if i >= len(s) || s[i] != '(' {
			break
		}
		// pair: (term value)
		j := i + 1
		read := func() string {
			for j < len(s) && (s[j] == ' ' || s[j] == '\n') {
				j++
			}
			start := j
			if j < len(s) && s[j] == '(' {
				depth := 0
				for j < len(s) {
					if s[j] == '(' {
						depth++
					} else if s[j] == ')' {
						depth--
						if depth == 0 {
							j++
							break
						}
					}
					j++
				}
			} else if j < len(s) && s[j] == '|' {
				j++
				for j < len(s) && s[j] != '|' {
					j++
				}
				j++
			} else {
				for j < len(s) && s[j] != ' ' && s[j] != ')' && s[j] != '\n' {
					j++
				}
			}
			return s[start:j]
		}
		_ = read()
		v := read()
		out = append(out, strings.Join(strings.Fields(v), " "))
		for j < len(s) && s[j] != ')' {
			j++
		}
		i = j + 1
	}
	return out
}

var _ = ssa.GlobalDebug
