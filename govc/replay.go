package main

import (
	"flag"
	"encoding/json"
	"fmt"
	"go/types"
	"os"
	"os/exec"
	"path/filepath"
	"strconv"
	"strings"
	"time"

	"golang.org/x/tools/go/ssa"
)

// tryReplay renders the solver's model as a Go test against the real code and
// runs it (go test -overlay, nothing is written to the repository). It returns
// the test source, its output and whether the failure was reproduced.
//
// Adapter "scalar": functions whose parameters (and receiver) are integers,
// booleans and strings. The model's arguments are passed to the real function:
//   - for bounds/div0/panic/assert-type obligations the failure is reproduced
//     when the real call panics;
//   - for postconditions the failure is reproduced when the real function
//     returns exactly the results of the model's execution (the execution the
//     solver found is real, and it violates the postcondition).
//
// Obligations inside loops (invariant preservation) describe an arbitrary
// iteration, not an execution from the entry: no replay is attempted for them.
// set by the adapters: where the generated test runs and what reproduces the violation
var lastReplayDir, lastReplayPkg, lastReplayExpect string

func tryReplay(id string, o *Obligation, r SolveResult, eng *Engine, cfg *PropConfig) (test, out string, reproduced bool) {
	lastReplayDir, lastReplayPkg, lastReplayExpect = "", "", ""

	e := o.enc
	if e == nil || e.fn == nil {
		return "", "", false
	}
	if cfg != nil && cfg.Replay == "bounds" && o.Kind == "post" {
		if t, out, ok := tryReplayBounds(id, o, r, eng); t != "" || out != "" {
			return t, out, ok
		}
	}
	if strings.Contains(e.name, "cue/scanner.Scanner)") && (o.Kind == "bounds" || o.Kind == "panic") {
		if t, out, ok := tryReplayScanner(o, eng); t != "" {
			return t, out, ok
		}
	}
	switch o.Kind {
	case "post", "bounds", "div0", "panic", "assert-type", "pre":
	default:
		return "", "", false
	}
	if r.CandidateModel && o.Kind == "post" {
		// the violation of a postcondition in a candidate model may be an artefact of
		// the dropped axioms: matching results would not confirm it
		return "", "", false
	}
	if len(e.loops) > 0 && o.Kind != "post" {
		// the obligation may sit inside a loop body: its model is not an execution prefix
		for _, li := range e.loops {
			_ = li
		}
	}
	fn := e.fn
	if fn.Pkg == nil || !strings.HasPrefix(fn.Pkg.Pkg.Path(), repoModule) {
		return "", "", false
	}
	// all parameters scalar?
	var terms []string
	type arg struct {
		name string
		typ  types.Type
		term Term
	}
	var args []arg
	for _, p := range fn.Params {
		if !scalarType(p.Type()) {
			return "", "", false
		}
		t := e.vals[p]
		args = append(args, arg{p.Name(), p.Type(), t})
		if t.Sort == SStr {
			terms = append(terms, fmt.Sprintf("(s-len %s)", t.S))
		} else {
			terms = append(terms, t.S)
		}
	}
	if len(fn.FreeVars) > 0 {
		return "", "", false
	}
	// results of the model's execution
	sig := fn.Signature
	var resTerms []Term
	if o.Kind == "post" && len(e.retSt) > 0 {
		for i := 0; i < sig.Results().Len(); i++ {
			var rt Term
			if len(e.retSt) == 1 {
				rt = e.retSt[0].results[i]
			} else {
				rt = Term{sym(fmt.Sprintf("ret.%d", i)), e.sortOf(sig.Results().At(i).Type())}
			}
			resTerms = append(resTerms, rt)
			switch {
			case rt.Sort == SStr:
				terms = append(terms, fmt.Sprintf("(s-len %s)", rt.S))
			case rt.Sort == SIface:
				terms = append(terms, fmt.Sprintf("(if-tag %s)", rt.S))
			default:
				terms = append(terms, rt.S)
			}
		}
	}
	vals, ok := getValues(o, terms)
	if !ok {
		return "", "", false
	}
	// string contents
	strBytes := map[string][]byte{}
	var byteTerms []string
	var byteKeys []string
	collect := func(t Term, lenStr string) bool {
		n, err := strconv.Atoi(lenStr)
		if err != nil || n < 0 || n > 256 {
			return false
		}
		for i := 0; i < n; i++ {
			byteTerms = append(byteTerms, fmt.Sprintf("(select (s-arr %s) (+ (s-off %s) %d))", t.S, t.S, i))
			byteKeys = append(byteKeys, fmt.Sprintf("%s#%d", t.S, i))
		}
		strBytes[t.S] = make([]byte, n)
		return true
	}
	k := 0
	for _, a := range args {
		if a.term.Sort == SStr {
			if !collect(a.term, vals[k]) {
				return "", "", false
			}
		}
		k++
	}
	for _, rt := range resTerms {
		if rt.Sort == SStr {
			if !collect(rt, vals[k]) {
				return "", "", false
			}
		}
		k++
	}
	if len(byteTerms) > 0 {
		bv, ok := getValues(o, append(append([]string{}, terms...), byteTerms...))
		if !ok {
			return "", "", false
		}
		vals = bv[:len(terms)]
		for i, key := range byteKeys {
			h := strings.LastIndex(key, "#")
			idx, _ := strconv.Atoi(key[h+1:])
			b, err := strconv.Atoi(bv[len(terms)+i])
			if err != nil || b < 0 || b > 255 {
				return "", "", false
			}
			strBytes[key[:h]][idx] = byte(b)
		}
	}
	// render the call
	goLit := func(t Term, typ types.Type, v string) (string, bool) {
		tn := types.TypeString(typ, func(p *types.Package) string {
			if p.Path() == fn.Pkg.Pkg.Path() {
				return ""
			}
			return p.Name()
		})
		switch {
		case t.Sort == SStr:
			return fmt.Sprintf("%s(%q)", tn, string(strBytes[t.S])), true
		case t.Sort == SBool:
			return v, v == "true" || v == "false"
		default:
			n, ok := parseSMTInt(v)
			if !ok {
				return "", false
			}
			return fmt.Sprintf("%s(%s)", tn, n), true
		}
	}
	var callArgs []string
	k = 0
	for _, a := range args {
		l, ok := goLit(a.term, a.typ, vals[k])
		if !ok {
			return "", "", false
		}
		callArgs = append(callArgs, l)
		k++
	}
	call := ""
	if fn.Signature.Recv() != nil {
		call = fmt.Sprintf("(%s).%s(%s)", callArgs[0], fn.Name(), strings.Join(callArgs[1:], ", "))
	} else {
		call = fmt.Sprintf("%s(%s)", fn.Name(), strings.Join(callArgs, ", "))
	}
	// expected results (as printed by the test)
	var expect []string
	for i, rt := range resTerms {
		v := vals[k]
		k++
		typ := sig.Results().At(i).Type()
		switch {
		case rt.Sort == SStr:
			expect = append(expect, fmt.Sprintf("%q", string(strBytes[rt.S])))
		case rt.Sort == SBool:
			expect = append(expect, v)
		case rt.Sort == SIface:
			if v == "0" {
				expect = append(expect, "<nil>")
			} else {
				expect = append(expect, "<non-nil>")
			}
		case isIntegerType(typ):
			n, ok := parseSMTInt(v)
			if !ok {
				return "", "", false
			}
			expect = append(expect, n)
		default:
			expect = append(expect, "?")
		}
	}
	var fmts, outs []string
	for i := 0; i < sig.Results().Len(); i++ {
		rt := sig.Results().At(i).Type()
		switch {
		case isStringType(rt):
			fmts = append(fmts, "%q")
			outs = append(outs, fmt.Sprintf("string(r%d)", i))
		case isIfaceType(rt):
			fmts = append(fmts, "%s")
			outs = append(outs, fmt.Sprintf("nilness(r%d)", i))
		case isIntegerType(rt):
			fmts = append(fmts, "%d")
			outs = append(outs, fmt.Sprintf("int64(r%d)", i))
		default:
			fmts = append(fmts, "%v")
			outs = append(outs, fmt.Sprintf("r%d", i))
		}
	}
	var lhs []string
	for i := 0; i < sig.Results().Len(); i++ {
		lhs = append(lhs, fmt.Sprintf("r%d", i))
	}
	assign := ""
	if len(lhs) > 0 {
		assign = strings.Join(lhs, ", ") + " := "
	}
	pkgName := fn.Pkg.Pkg.Name()
	src := fmt.Sprintf(`package %s

import (
	"fmt"
	"testing"
)

func nilness(v any) string {
	if v == nil {
		return "<nil>"
	}
	return "<non-nil>"
}

// generated by /verif/govc from the model of obligation
// %s
func TestGovcReplay(t *testing.T) {
	defer func() {
		if r := recover(); r != nil {
			fmt.Printf("REPLAY-PANIC: %%v\n", r)
		}
	}()
	%s%s
	fmt.Printf("REPLAY-RESULT: %s\n"%s)
}
`, pkgName, o.Name, assign, call, strings.Join(fmts, "|"), prefixComma(outs))
	_ = nilnessUsed
	dir := filepath.Dir(eng.prog.Fset.Position(fn.Pos()).Filename)
	tmp, err := os.MkdirTemp("", "govc-replay")
	if err != nil {
		return src, err.Error(), false
	}
	defer os.RemoveAll(tmp)
	testFile := filepath.Join(tmp, "zz_govc_replay_test.go")
	os.WriteFile(testFile, []byte(src), 0o644)
	ov := map[string]any{"Replace": map[string]string{filepath.Join(dir, "zz_govc_replay_test.go"): testFile}}
	ovData, _ := json.Marshal(ov)
	ovFile := filepath.Join(tmp, "overlay.json")
	os.WriteFile(ovFile, ovData, 0o644)
	rel, _ := filepath.Rel(eng.RepoDir, dir)
	lastReplayDir, lastReplayPkg = rel, "./"+rel
	switch o.Kind {
	case "bounds", "div0", "panic", "assert-type":
		lastReplayExpect = "REPLAY-PANIC"
	case "post":
		lastReplayExpect = "REPLAY-RESULT: " + strings.Join(expect, "|")
	}
	cmd := exec.Command("go", "test", "-overlay", ovFile, "-vet=off", "-timeout", "60s", "-count=1", "-v", "-run", "^TestGovcReplay$", "./"+rel)
	cmd.Dir = eng.RepoDir
	cmd.Env = append(os.Environ(), "GOFLAGS=-mod=mod", "GOPROXY=off")
	done := make(chan struct{})
	var outb []byte
	go func() { outb, _ = cmd.CombinedOutput(); close(done) }()
	select {
	case <-done:
	case <-time.After(180 * time.Second):
		if cmd.Process != nil {
			cmd.Process.Kill()
		}
		return src, "replay timed out", false
	}
	out = string(outb)
	switch o.Kind {
	case "bounds", "div0", "panic", "assert-type":
		return src, out, strings.Contains(out, "REPLAY-PANIC")
	case "pre":
		return src, out, false
	}
	want := "REPLAY-RESULT: " + strings.Join(expect, "|")
	for _, l := range strings.Split(out, "\n") {
		if strings.TrimSpace(l) == want {
			return src, out + "\n(model's execution reproduced: the real function returns the results of the counterexample)", !strings.Contains(want, "?")
		}
	}
	return src, out + "\n(expected from the model: " + want + ")", false
}

var nilnessUsed = true

func prefixComma(a []string) string {
	if len(a) == 0 {
		return ""
	}
	return ", " + strings.Join(a, ", ")
}

func scalarType(t types.Type) bool {
	b, ok := types.Unalias(t).Underlying().(*types.Basic)
	return ok && b.Info()&(types.IsInteger|types.IsBoolean|types.IsString) != 0
}
func isStringType(t types.Type) bool {
	b, ok := types.Unalias(t).Underlying().(*types.Basic)
	return ok && b.Info()&types.IsString != 0
}
func isIfaceType(t types.Type) bool {
	_, ok := types.Unalias(t).Underlying().(*types.Interface)
	return ok
}

// parseSMTInt understands 5, (- 5), #x0f, #b101, (_ bv5 8).
func parseSMTInt(v string) (string, bool) {
	v = strings.TrimSpace(v)
	switch {
	case strings.HasPrefix(v, "(- ") && strings.HasSuffix(v, ")"):
		n, ok := parseSMTInt(v[3 : len(v)-1])
		return "-" + n, ok
	case strings.HasPrefix(v, "#x"):
		n, err := strconv.ParseUint(v[2:], 16, 64)
		return fmt.Sprint(n), err == nil
	case strings.HasPrefix(v, "#b"):
		n, err := strconv.ParseUint(v[2:], 2, 64)
		return fmt.Sprint(n), err == nil
	case strings.HasPrefix(v, "(_ bv"):
		f := strings.Fields(v[5:])
		if len(f) > 0 {
			return f[0], true
		}
	}
	if _, err := strconv.ParseInt(v, 10, 64); err == nil {
		return v, true
	}
	if _, err := strconv.ParseUint(v, 10, 64); err == nil {
		return v, true
	}
	return "", false
}

// getValues re-runs the obligation's query (without the quantified background
// axioms when the model came from the counterexample search) and asks z3 for
// the values of the given terms.
func getValues(o *Obligation, terms []string) ([]string, bool) {
	if len(terms) == 0 {
		return nil, true
	}
	o2 := *o
	o2.NoAxioms = true
	script := o2.Script(false)
	script += "(get-value (" + strings.Join(terms, " ") + "))\n"
	tmp, err := os.CreateTemp("", "govc-getvalue-*.smt2")
	if err != nil {
		return nil, false
	}
	defer os.Remove(tmp.Name())
	tmp.WriteString(script)
	tmp.Close()
	cmd := exec.Command("z3-new", "-smt2", "-T:60", tmp.Name())
	outb, _ := cmd.Output()
	out := string(outb)
	if !strings.HasPrefix(strings.TrimSpace(out), "sat") {
		// second opinion
		cmd = exec.Command("cvc5", "--tlimit=60000", tmp.Name())
		outb, _ = cmd.Output()
		out = string(outb)
		if !strings.HasPrefix(strings.TrimSpace(out), "sat") {
			return nil, false
		}
	}
	body := out[strings.Index(out, "sat")+3:]
	// parse ((term value) (term value) ...)
	vals := parsePairs(body)
	if len(vals) != len(terms) {
		return nil, false
	}
	return vals, true
}

// parsePairs extracts the values of a (get-value ...) answer in order.
func parsePairs(s string) []string {
	s = strings.TrimSpace(s)
	if !strings.HasPrefix(s, "(") {
		return nil
	}
	var out []string
	i := 1
	for i < len(s) {
		for i < len(s) && (s[i] == ' ' || s[i] == '\n') {
			i++
		}
		if i >= len(s) || s[i] != '(' {
			break
		}
		// pair: (term value)
		j := i + 1
		read := func() string {
			for j < len(s) && (s[j] == ' ' || s[j] == '\n') {
				j++
			}
			start := j
			if j < len(s) && s[j] == '(' {
				depth := 0
				for j < len(s) {
					if s[j] == '(' {
						depth++
					} else if s[j] == ')' {
						depth--
						if depth == 0 {
							j++
							break
						}
					}
					j++
				}
			} else if j < len(s) && s[j] == '|' {
				j++
				for j < len(s) && s[j] != '|' {
					j++
				}
				j++
			} else {
				for j < len(s) && s[j] != ' ' && s[j] != ')' && s[j] != '\n' {
					j++
				}
			}
			return s[start:j]
		}
		_ = read()
		v := read()
		out = append(out, strings.Join(strings.Fields(v), " "))
		for j < len(s) && s[j] != ')' {
			j++
		}
		i = j + 1
	}
	return out
}

var _ = ssa.GlobalDebug

// tryReplayScanner: a bounds/panic obligation of a Scanner method failed. The model
// gives the source bytes of the scanner; the real scanner is run over them from the
// start (and from the model's current offset). The violation is reproduced iff the
// real run panics.
func tryReplayScanner(o *Obligation, eng *Engine) (test, out string, reproduced bool) {
	e := o.enc
	var recv string
	for _, p := range e.fn.Params {
		if p.Name() == "s" {
			recv = e.vals[p].S
		}
	}
	if recv == "" {
		return "", "", false
	}
	srcT := fmt.Sprintf("(select %s %s)", e.compAt("H.scanner.Scanner.src"), recv)
	offT := fmt.Sprintf("(select %s %s)", e.compAt("H.scanner.Scanner.offset"), recv)
	// steer the model towards states a real scanner can be in (facts about real states
	// that the contract's invariant does not carry; they only narrow the search — the
	// real run decides): an ASCII current character is the byte at the current offset
	// and the read offset is one past it; keep the source short
	chT := fmt.Sprintf("(select %s %s)", e.compAt("H.scanner.Scanner.ch"), recv)
	rdT := fmt.Sprintf("(select %s %s)", e.compAt("H.scanner.Scanner.rdOffset"), recv)
	byteAt := func(i string) string {
		return fmt.Sprintf("(select (select %s (sl-base %s)) (+ (sl-off %s) %s))", e.compAt("Elem.uint8"), srcT, srcT, i)
	}
	o2 := *o
	o2.Extra = append(append([]string{}, o.Extra...),
		fmt.Sprintf("(<= (sl-len %s) 64)", srcT),
		fmt.Sprintf("(=> (and (<= 0 %s) (< %s 128)) (and (<= 0 %s) (< %s (sl-len %s)) (= %s %s) (= %s (+ %s 1))))", chT, chT, offT, offT, srcT, byteAt(offT), chT, rdT, offT))
	o = &o2
	vals, ok := getValues(o, []string{"(sl-len " + srcT + ")", offT})
	if !ok {
		return "(no test generated)", "scanner adapter: the steered model query was not answered sat", false
	}
	n, err := strconv.Atoi(vals[0])
	if err != nil || n < 0 || n > 400 {
		return "", "", false
	}
	off, _ := strconv.Atoi(vals[1])
	if off < 0 || off > n {
		off = 0
	}
	terms := []string{"(sl-len " + srcT + ")"}
	for i := 0; i < n; i++ {
		terms = append(terms, fmt.Sprintf("(select (select %s (sl-base %s)) (+ (sl-off %s) %d))", e.compAt("Elem.uint8"), srcT, srcT, i))
	}
	o3 := *o
	o3.Extra = append(append([]string{}, o.Extra...), fmt.Sprintf("(= (sl-len %s) %d)", srcT, n))
	bv, ok := getValues(&o3, terms)
	if !ok || bv[0] != vals[0] {
		// no bytes from the model: the witness search below still runs
		bv = nil
	}
	data := make([]byte, n)
	for i := 0; i < n && bv != nil; i++ {
		b, err := strconv.Atoi(bv[i+1])
		if err != nil || b < 0 || b > 255 {
			data = nil
			break
		}
		data[i] = byte(b)
	}
	if bv == nil {
		data = nil
	}
	if off > len(data) {
		off = 0
	}
	src := fmt.Sprintf(`package scanner

import (
	"fmt"
	"testing"

	"cuelang.org/go/cue/token"
)

// generated by /verif/govc from the model of obligation
// %s
func TestGovcReplay(t *testing.T) {
	panicked := false
	run := func(src []byte) {
		defer func() {
			if r := recover(); r != nil {
				if !panicked {
					fmt.Printf("REPLAY-PANIC: scanning %%q: %%v\n", src, r)
				}
				panicked = true
			}
		}()
		var s Scanner
		s.Init(token.NewFile("replay.cue", -1, len(src)), src, nil, ScanComments)
		for i := 0; i < len(src)+2; i++ {
			if _, tok, _ := s.Scan(); tok == token.EOF {
				break
			}
		}
	}
	all := []byte(%q)
	run(all)
	for k := 0; k <= %d && k <= len(all); k++ {
		run(all[k:])
	}
	if !panicked {
		// witness search: the model's source bytes are only as consistent as the
		// contracts of the callees make them, so also enumerate every input of up to
		// three bytes (four for the punctuation subset) over the characters that are
		// significant to the scanner. This is a bounded search for a failing input of
		// an obligation that already failed, not part of the proof.
		alpha := []byte("_|\"'#\\/*.019eExXbo+-=!<>&:;,()[]{}?$@ \n\ta\x80\xff\xef\xbb\xbf")
		punct := []byte("_|\"'#\\/*.=!<>&-")
		buf := make([]byte, 0, 4)
		var rec func(a []byte, depth, max int)
		rec = func(a []byte, depth, max int) {
			if panicked {
				return
			}
			run(buf)
			if depth == max {
				return
			}
			for _, c := range a {
				buf = append(buf, c)
				rec(a, depth+1, max)
				buf = buf[:len(buf)-1]
			}
		}
		rec(alpha, 0, 3)
		rec(punct, 0, 4)
	}
	fmt.Println("REPLAY-DONE")
}
`, o.Name, string(data), off)
	dir := filepath.Join(eng.RepoDir, "cue", "scanner")
	lastReplayDir, lastReplayPkg, lastReplayExpect = "cue/scanner", "./cue/scanner", "REPLAY-PANIC"
	out, err2 := runOverlayTest(eng, dir, "./cue/scanner", src)
	if err2 != nil {
		return src, err2.Error(), false
	}
	return src, out, strings.Contains(out, "REPLAY-PANIC")
}

// runOverlayTest injects src as an in-package test through -overlay and runs it.
func runOverlayTest(eng *Engine, dir, pkg, src string) (string, error) {
	tmp, err := os.MkdirTemp("", "govc-replay")
	if err != nil {
		return "", err
	}
	defer os.RemoveAll(tmp)
	testFile := filepath.Join(tmp, "zz_govc_replay_test.go")
	os.WriteFile(testFile, []byte(src), 0o644)
	ov := map[string]any{"Replace": map[string]string{filepath.Join(dir, "zz_govc_replay_test.go"): testFile}}
	ovData, _ := json.Marshal(ov)
	ovFile := filepath.Join(tmp, "overlay.json")
	os.WriteFile(ovFile, ovData, 0o644)
	cmd := exec.Command("go", "test", "-overlay", ovFile, "-vet=off", "-timeout", "60s", "-count=1", "-v", "-run", "^TestGovcReplay$", pkg)
	cmd.Dir = eng.RepoDir
	cmd.Env = append(os.Environ(), "GOFLAGS=-mod=mod", "GOPROXY=off")
	done := make(chan struct{})
	var outb []byte
	go func() { outb, _ = cmd.CombinedOutput(); close(done) }()
	select {
	case <-done:
	case <-time.After(180 * time.Second):
		if cmd.Process != nil {
			cmd.Process.Kill()
		}
		return "", fmt.Errorf("replay timed out")
	}
	return string(outb), nil
}

// replayCmd: govc replay <file> re-runs the test recorded in a replay file against
// /repo's current working tree. Exit 1 if the violation reproduces, 0 if the test
// runs and does not, 2 if the file records no test (the obligation then has to be
// re-derived with `govc check -prop <id>`).
func replayCmd(args []string) {
	fs := flag.NewFlagSet("replay", flag.ExitOnError)
	repo := fs.String("repo", "/repo", "repository")
	fs.Parse(args)
	if fs.NArg() != 1 {
		fmt.Fprintln(os.Stderr, "usage: govc replay [-repo dir] <replay file>")
		os.Exit(2)
	}
	data, err := os.ReadFile(fs.Arg(0))
	if err != nil {
		fmt.Fprintln(os.Stderr, err)
		os.Exit(2)
	}
	var rp map[string]any
	if err := json.Unmarshal(data, &rp); err != nil {
		fmt.Fprintln(os.Stderr, err)
		os.Exit(2)
	}
	str := func(k string) string { s, _ := rp[k].(string); return s }
	fmt.Printf("property:   %s\nobligation: %s\nclause:     %s (%s)\nsolver:     %s %s, candidate model: %v\n", str("property"), str("obligation"), str("clause"), str("clause_at"), str("solver"), str("status"), rp["candidate_model"])
	test, dir, pkg, expect := str("replay_test"), str("replay_dir"), str("replay_pkg"), str("replay_expect")
	if test == "" || dir == "" || strings.HasPrefix(test, "(no test") {
		fmt.Println("no replayable test recorded for this obligation (no-failing-input-found); re-derive it with: govc check -prop " + str("property"))
		if so := str("solver_output"); so != "" {
			fmt.Println("solver output at the time:\n" + so)
		}
		os.Exit(2)
	}
	eng := NewEngine(*repo)
	out, err := runOverlayTest(eng, filepath.Join(*repo, dir), pkg, test)
	if err != nil {
		fmt.Println("replay failed to run:", err)
		os.Exit(2)
	}
	fmt.Println(out)
	if expect != "" && strings.Contains(out, expect) {
		fmt.Println("REPRODUCED: the real code shows the violation (" + expect + ")")
		os.Exit(1)
	}
	fmt.Println("not reproduced on the current tree")
	os.Exit(0)
}
