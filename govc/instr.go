package main

import (
	"fmt"
	"sort"
	"strings"
	"go/token"
	"go/types"
	"math/big"

	"golang.org/x/tools/go/ssa"
)

func (e *fnEnc) define(v ssa.Value, t Term) {
	// give every SSA value a named constant so that models show it
	c := e.declare(e.valName(v), t.Sort)
	e.assert(eq(c, t))
	e.vals[v] = c
}

func (e *fnEnc) instr(c *blockCtx, in ssa.Instruction) {
	switch in := in.(type) {
	case *ssa.DebugRef:
		return
	case *ssa.BinOp:
		e.define(in, e.binop(c, in, in.Op, e.val(in.X), e.val(in.Y), in.X.Type(), in.Type()))
	case *ssa.UnOp:
		e.unop(c, in)
	case *ssa.Phi:
		e.fail("phi after non-phi")
	case *ssa.Alloc:
		e.alloc(c, in)
	case *ssa.FieldAddr:
		e.fieldAddr(c, in)
	case *ssa.Field:
		x := e.val(in.X)
		si := e.structOf(in.X.Type())
		e.define(in, e.proj(si, x, in.Field))
	case *ssa.IndexAddr:
		e.indexAddr(c, in)
	case *ssa.Index:
		e.index(c, in)
	case *ssa.Store:
		e.store(c, in)
	case *ssa.Slice:
		e.slice(c, in)
	case *ssa.Convert:
		e.define(in, e.convert(c, e.val(in.X), in.X.Type(), in.Type()))
	case *ssa.ChangeType:
		x := e.val(in.X)
		if x.Sort != e.sortOf(in.Type()) {
			x = e.convert(c, x, in.X.Type(), in.Type())
		}
		e.define(in, x)
	case *ssa.ChangeInterface:
		e.define(in, e.val(in.X))
	case *ssa.MakeInterface:
		e.makeInterface(c, in)
	case *ssa.TypeAssert:
		e.typeAssert(c, in)
	case *ssa.Extract:
		tup, ok := e.tuples[in.Tuple]
		if !ok {
			e.fail("extract from unknown tuple %s", in.Tuple.Name())
		}
		e.define(in, tup[in.Index])
	case *ssa.Call:
		res := e.call(c, in, &in.Call)
		sig := in.Call.Signature()
		switch sig.Results().Len() {
		case 0:
		case 1:
			e.define(in, res[0])
		default:
			e.tuples[in] = res
		}
	case *ssa.Defer:
		// executed at RunDefers
	case *ssa.RunDefers:
		e.runDefers(c, in)
	case *ssa.Go:
		e.goStmt(c, in)
	case *ssa.MakeClosure:
		r := e.newRef(c.st, "closure")
		e.vals[in] = r
		e.closures[in] = in
		// identity of the function value: which function, and (for a bound
		// method value) which receiver
		fname := strings.TrimSuffix(canonFuncName(in.Fn.(*ssa.Function).String()), "$bound")
		e.assert(eq(app(SInt, e.funcidFun(), r), intLit(int64(e.eng.funcID(fname)))))
		if strings.HasSuffix(in.Fn.Name(), "$bound") && len(in.Bindings) == 1 {
			if _, isLV := e.lvals[in.Bindings[0]]; !isLV {
				b := e.val(in.Bindings[0])
				if b.Sort == SInt {
					e.assert(eq(app(SInt, e.funcrecvFun(), r), b))
				}
			}
		}
	case *ssa.MakeSlice:
		e.makeSlice(c, in)
	case *ssa.MakeMap:
		r := e.newRef(c.st, "map")
		kt := in.Type().Underlying().(*types.Map)
		dc, ds, _, _ := e.mapComps(e.sortOf(kt.Key()), e.sortOf(kt.Elem()))
		dom := e.heapGet2(c.st, dc, ds)
		inner := ArrayOf(e.sortOf(kt.Key()), SBool)
		e.setHeap(c.st, dc, store(dom, r, app(inner, fmt.Sprintf("(as const %s)", inner), tFalse)))
		e.define(in, r)
	case *ssa.MapUpdate:
		e.mapUpdate(c, in)
	case *ssa.Lookup:
		e.lookup(c, in)
	case *ssa.Range:
		e.rangeInstr(c, in)
	case *ssa.Next:
		e.next(c, in)
	case *ssa.Panic:
		// "effect panic#k requires E": the k-th explicit panic (source order) is allowed,
		// but only in states where E holds (e.g. the recover protocol's flag is set)
		name := e.ordinalName("panic", in) // "k"
		guarded := false
		for _, cl := range e.ctr.Get("effect") {
			f := strings.SplitN(cl.Text, " ", 3)
			if len(f) == 3 && f[1] == "requires" && (f[0] == "panic#"+name || f[0] == "panic#*") {
				ex, err := parseExpr(f[2])
				if err != nil {
					e.fail("effect clause: %v", err)
				}
				env := e.envAt(c.b, e.curIdx, c.st)
				e.obligation("effect", "panic#"+name, c.reach, e.evalBool(ex, env), f[2], e.posOf(in), false)
				guarded = true
			}
		}
		if !e.mayPanic && !guarded {
			e.obligation("panic", name, c.reach, tFalse, "explicit panic must be unreachable", e.posOf(in), false)
		}
		c.dead = true
	case *ssa.Return:
		e.ret(c, in)
	case *ssa.Jump:
		e.setEdge(c, c.b.Succs[0], c.reach)
	case *ssa.If:
		cond := e.val(in.Cond)
		e.setEdge(c, c.b.Succs[0], and(c.reach, cond))
		e.setEdge(c, c.b.Succs[1], and(c.reach, not(cond)))
	case *ssa.Send:
		// channel send: no heap effect modelled
	case *ssa.Select:
		e.selectInstr(c, in)
	case *ssa.SliceToArrayPointer:
		e.fail("slice to array pointer")
	default:
		e.fail("unsupported instruction %T", in)
	}
}

// ordinalName numbers instructions of a kind in source order inside the function.
func (e *fnEnc) ordinalName(kind string, in ssa.Instruction) string {
	n := 0
	type posd struct {
		pos token.Pos
		in  ssa.Instruction
	}
	var all []posd
	for _, b := range e.fn.Blocks {
		for _, i2 := range b.Instrs {
			switch kind {
			case "panic":
				if _, ok := i2.(*ssa.Panic); ok {
					all = append(all, posd{i2.Pos(), i2})
				}
			}
		}
	}
	for _, a := range all {
		if a.in == in {
			break
		}
		if a.pos <= in.Pos() {
			n++
		}
	}
	return fmt.Sprint(n)
}

func (e *fnEnc) setEdge(c *blockCtx, succ *ssa.BasicBlock, cond Term) {
	key := [2]int{c.b.Index, succ.Index}
	if old, ok := e.edge[key]; ok {
		cond = or(old, cond) // both branches of an If go to the same block
	}
	ec := e.declare(fmt.Sprintf("edge.%s%d.%d", e.ns, c.b.Index, succ.Index), SBool)
	if _, ok := e.edge[key]; ok {
		// redefine: drop is not possible, so use a second constant
		ec = e.freshConst(fmt.Sprintf("edge.%s%d.%d", e.ns, c.b.Index, succ.Index), SBool)
	}
	e.assert(eq(ec, cond))
	e.edge[key] = ec
	if e.backEdge[key] {
		e.backEdgeObligations(c, succ, ec)
	}
}

func (e *fnEnc) backEdgeObligations(c *blockCtx, header *ssa.BasicBlock, cond Term) {
	li := e.loopOf[header]
	// environment: header phis take the values flowing along this edge
	pidx := -1
	for i, p := range header.Preds {
		if p == c.b {
			pidx = i
		}
	}
	saved := map[*ssa.Phi]Term{}
	nphi := 0
	for _, in := range header.Instrs {
		phi, ok := in.(*ssa.Phi)
		if !ok {
			break
		}
		nphi++
		saved[phi] = e.vals[phi]
		e.vals[phi] = e.val2(phi.Edges[pidx], saved)
	}
	env := e.envAt(header, nphi, c.st)
	be := &backEdgeGoals{cond: cond}
	for _, cl := range e.loopClauses(li.ord, "loop-invariant") {
		be.inv = append(be.inv, e.evalBool(cl.E, env))
	}
	for i, cl := range e.loopClauses(li.ord, "loop-decreases") {
		m := e.evalSpec(cl.E, env)
		old := e.ghostVars[fmt.Sprintf("!measure.%d.%d", li.ord, i)]
		be.dec = append(be.dec, and(le(intLit(0), old), lt(m.t, old)))
	}
	// implicit frame invariant
	if e.pi().pass == 2 {
		r := e.declare("frame.r", SInt)
		if goals, ok := e.frameGoals(c.st, r.S); ok {
			var gs []Term
			var ks []string
			for k := range goals {
				ks = append(ks, k)
			}
			sort.Strings(ks)
			for _, k := range ks {
				gs = append(gs, goals[k])
			}
			be.frame = and(gs...)
		} else {
			be.frame = tFalse
		}
	}
	e.backGoals[li.ord] = append(e.backGoals[li.ord], be)
	for phi, t := range saved {
		e.vals[phi] = t
	}
}

type backEdgeGoals struct {
	cond Term
	inv  []Term
	dec  []Term
	frame Term
}

// val2 evaluates an edge value where phis of the same header must be read with their pre-update value.
func (e *fnEnc) val2(v ssa.Value, saved map[*ssa.Phi]Term) Term {
	if phi, ok := v.(*ssa.Phi); ok {
		if t, ok := saved[phi]; ok {
			return t
		}
	}
	return e.val(v)
}

func (e *fnEnc) heapGet2(st *state, comp string, s Sort) Term {
	if t, ok := st.m[comp]; ok {
		return t
	}
	return e.heapGetEpoch(st, comp, s)
}

func (e *fnEnc) setHeap(st *state, comp string, v Term) { e.heapSet(st, comp, v) }

// ---------- arithmetic ----------

func (e *fnEnc) wrap(t Term, typ types.Type) Term {
	b, ok := types.Unalias(typ).Underlying().(*types.Basic)
	if !ok || t.Sort != SInt {
		return t
	}
	w, signed, ok := intWidth(b)
	if !ok {
		return t
	}
	if !signed {
		if w == 64 && strings.Contains(e.ctr.Options["arith"], "nowrap") {
			e.assume("machine arithmetic treated as mathematical: unsigned 64-bit +,-,* do not wrap in " + e.shortFuncName())
			return t
		}
		return app(SInt, "mod", t, bigLit(pow2(w)))
	}
	if w == 64 {
		e.assume("machine arithmetic treated as mathematical: signed 64-bit +,-,* in " + e.shortFuncName())
		return t
	}
	h := bigLit(pow2(w - 1))
	return sub(app(SInt, "mod", add(t, h), bigLit(pow2(w))), h)
}

func isConstTerm(v ssa.Value) (*big.Int, bool) {
	c, ok := v.(*ssa.Const)
	if !ok || c.Value == nil {
		return nil, false
	}
	bi, ok := new(big.Int).SetString(c.Value.ExactString(), 10)
	return bi, ok
}

func (e *fnEnc) truncDiv(x, y Term) (q, r Term) {
	ax := ite(le(intLit(0), x), x, app(SInt, "-", x))
	ay := ite(le(intLit(0), y), y, app(SInt, "-", y))
	aq := app(SInt, "div", ax, ay)
	sameSign := eq(le(intLit(0), x), le(intLit(0), y))
	q = ite(sameSign, aq, app(SInt, "-", aq))
	r = sub(x, app(SInt, "*", y, q))
	return
}

// bitAndConst encodes x & c for a non-negative Int x and constant c.
func (e *fnEnc) bitAndConst(x Term, c *big.Int, width int) Term {
	if c.Sign() == 0 {
		return intLit(0)
	}
	// c == 2^k-1
	cp1 := new(big.Int).Add(c, bigOne)
	if cp1.BitLen()-1 == c.BitLen() && new(big.Int).And(cp1, c).Sign() == 0 {
		return app(SInt, "mod", x, bigLit(cp1))
	}
	var parts []Term
	for i := 0; i < c.BitLen(); i++ {
		if c.Bit(i) == 1 {
			bit := app(SInt, "mod", app(SInt, "div", x, bigLit(pow2(i))), intLit(2))
			parts = append(parts, app(SInt, "*", bit, bigLit(pow2(i))))
		}
	}
	if len(parts) == 1 {
		return parts[0]
	}
	return app(SInt, "+", parts...)
}

func (e *fnEnc) binop(c *blockCtx, in ssa.Instruction, op token.Token, x, y Term, xt, rt types.Type) Term {
	switch {
	case x.Sort == SBool:
		switch op {
		case token.EQL:
			return eq(x, y)
		case token.NEQ:
			return not(eq(x, y))
		case token.AND, token.LAND:
			return and(x, y)
		case token.OR, token.LOR:
			return or(x, y)
		case token.XOR:
			return not(eq(x, y))
		}
	case x.Sort == SInt && y.Sort == SInt && isIntegerType(xt):
		ub, _ := types.Unalias(xt).Underlying().(*types.Basic)
		w, signed, _ := intWidth(ub)
		switch op {
		case token.ADD:
			return e.wrap(add(x, y), rt)
		case token.SUB:
			return e.wrap(sub(x, y), rt)
		case token.MUL:
			return e.wrap(app(SInt, "*", x, y), rt)
		case token.QUO, token.REM:
			if in != nil {
				e.obligation("div0", e.exprName(in), c.reach, not(eq(y, intLit(0))), "divisor must be non-zero", e.posOf(in), false)
			}
			var q, r Term
			if !signed {
				q, r = app(SInt, "div", x, y), app(SInt, "mod", x, y)
			} else {
				q, r = e.truncDiv(x, y)
			}
			if op == token.QUO {
				return e.wrap(q, rt)
			}
			return r
		case token.EQL:
			return eq(x, y)
		case token.NEQ:
			return not(eq(x, y))
		case token.LSS:
			return lt(x, y)
		case token.LEQ:
			return le(x, y)
		case token.GTR:
			return lt(y, x)
		case token.GEQ:
			return le(y, x)
		case token.AND, token.OR, token.XOR, token.AND_NOT, token.SHL, token.SHR:
			var cv *big.Int
			var other Term
			if bi, ok := e.constOfTerm(y); ok {
				cv, other = bi, x
			} else if bi, ok := e.constOfTerm(x); ok && op != token.SHL && op != token.SHR && op != token.AND_NOT {
				cv, other = bi, y
			} else {
				e.fail("bitwise %s on symbolic Int operands (declare the type as bvtype)", op)
			}
			if signed && op != token.SHL && op != token.SHR {
				// only sound for non-negative values: require it
				e.assume("bitwise op on signed value assumed non-negative in " + e.shortFuncName())
			}
			switch op {
			case token.AND:
				return e.bitAndConst(other, cv, w)
			case token.OR:
				return sub(add(other, bigLit(cv)), e.bitAndConst(other, cv, w))
			case token.XOR:
				return sub(add(other, bigLit(cv)), app(SInt, "*", intLit(2), e.bitAndConst(other, cv, w)))
			case token.AND_NOT:
				return sub(other, e.bitAndConst(other, cv, w))
			case token.SHL:
				return e.wrap(app(SInt, "*", other, bigLit(pow2(int(cv.Int64())))), rt)
			case token.SHR:
				return app(SInt, "div", other, bigLit(pow2(int(cv.Int64()))))
			}
		}
	case x.Sort.IsBV():
		w := x.Sort.BVWidth()
		signed := false
		if b, ok := types.Unalias(xt).Underlying().(*types.Basic); ok {
			_, signed, _ = intWidth(b)
		}
		if y.Sort.IsBV() && y.Sort.BVWidth() != w {
			// shift amounts may have another width
			yw := y.Sort.BVWidth()
			if yw < w {
				y = app(BV(w), fmt.Sprintf("(_ zero_extend %d)", w-yw), y)
			} else {
				y = app(BV(w), fmt.Sprintf("(_ extract %d 0)", w-1), y)
			}
		} else if y.Sort == SInt {
			if bi, ok := e.constOfTerm(y); ok {
				y = bvLit(bi, w)
			} else {
				y = app(BV(w), fmt.Sprintf("(_ int2bv %d)", w), y)
			}
		}
		s := BV(w)
		switch op {
		case token.ADD:
			return app(s, "bvadd", x, y)
		case token.SUB:
			return app(s, "bvsub", x, y)
		case token.MUL:
			return app(s, "bvmul", x, y)
		case token.QUO:
			if in != nil {
				e.obligation("div0", e.exprName(in), c.reach, not(eq(y, bvLit(big.NewInt(0), w))), "divisor must be non-zero", e.posOf(in), false)
			}
			if signed {
				return app(s, "bvsdiv", x, y)
			}
			return app(s, "bvudiv", x, y)
		case token.REM:
			if in != nil {
				e.obligation("div0", e.exprName(in), c.reach, not(eq(y, bvLit(big.NewInt(0), w))), "divisor must be non-zero", e.posOf(in), false)
			}
			if signed {
				return app(s, "bvsrem", x, y)
			}
			return app(s, "bvurem", x, y)
		case token.AND:
			return app(s, "bvand", x, y)
		case token.OR:
			return app(s, "bvor", x, y)
		case token.XOR:
			return app(s, "bvxor", x, y)
		case token.AND_NOT:
			return app(s, "bvand", x, app(s, "bvnot", y))
		case token.SHL:
			return app(s, "bvshl", x, y)
		case token.SHR:
			if signed {
				return app(s, "bvashr", x, y)
			}
			return app(s, "bvlshr", x, y)
		case token.EQL:
			return eq(x, y)
		case token.NEQ:
			return not(eq(x, y))
		case token.LSS, token.LEQ, token.GTR, token.GEQ:
			f := map[token.Token]string{token.LSS: "lt", token.LEQ: "le", token.GTR: "gt", token.GEQ: "ge"}[op]
			if signed {
				return app(SBool, "bvs"+f, x, y)
			}
			return app(SBool, "bvu"+f, x, y)
		}
	case x.Sort == SReal:
		switch op {
		case token.ADD:
			return add(x, y)
		case token.SUB:
			return sub(x, y)
		case token.MUL:
			return app(SReal, "*", x, y)
		case token.QUO:
			return app(SReal, "/", x, y)
		case token.EQL:
			return eq(x, y)
		case token.NEQ:
			return not(eq(x, y))
		case token.LSS:
			return lt(x, y)
		case token.LEQ:
			return le(x, y)
		case token.GTR:
			return lt(y, x)
		case token.GEQ:
			return le(y, x)
		}
	case x.Sort == SStr:
		switch op {
		case token.EQL:
			return e.strEq(x, y)
		case token.NEQ:
			return not(e.strEq(x, y))
		case token.ADD:
			return e.strConcat(x, y)
		case token.LSS, token.LEQ, token.GTR, token.GEQ:
			cmp := e.strCompare(x, y)
			switch op {
			case token.LSS:
				return lt(cmp, intLit(0))
			case token.LEQ:
				return le(cmp, intLit(0))
			case token.GTR:
				return lt(intLit(0), cmp)
			case token.GEQ:
				return le(intLit(0), cmp)
			}
		}
	default:
		switch op {
		case token.EQL:
			return eq(x, y)
		case token.NEQ:
			return not(eq(x, y))
		}
		if x.Sort == SAStr {
			if op == token.ADD {
				f := e.declareFun("aconcat", []Sort{SAStr, SAStr}, SAStr)
				return app(SAStr, f, x, y)
			}
			cmp := app(SInt, e.declareFun("acmp", []Sort{SAStr, SAStr}, SInt), x, y)
			switch op {
			case token.LSS:
				return lt(cmp, intLit(0))
			case token.LEQ:
				return le(cmp, intLit(0))
			case token.GTR:
				return lt(intLit(0), cmp)
			case token.GEQ:
				return le(intLit(0), cmp)
			}
		}
	}
	e.fail("unsupported binary op %s on %s", op, x.Sort)
	return Term{}
}

func isIntegerType(t types.Type) bool {
	b, ok := types.Unalias(t).Underlying().(*types.Basic)
	return ok && b.Info()&types.IsInteger != 0
}

// constOfTerm recognises integer literal terms.
func (e *fnEnc) constOfTerm(t Term) (*big.Int, bool) {
	s := t.S
	neg := false
	if len(s) > 4 && s[:3] == "(- " && s[len(s)-1] == ')' {
		neg = true
		s = s[3 : len(s)-1]
	}
	bi, ok := new(big.Int).SetString(s, 10)
	if !ok {
		return nil, false
	}
	if neg {
		bi.Neg(bi)
	}
	return bi, true
}

// exprName gives a position-independent label of an instruction: kind plus
// ordinal among same-kind instructions in source order.
func (e *fnEnc) exprName(in ssa.Instruction) string {
	kind := fmt.Sprintf("%T", in)
	n := 0
	found := false
	for _, b := range e.fn.Blocks {
		for _, i2 := range b.Instrs {
			if fmt.Sprintf("%T", i2) != kind {
				continue
			}
			if i2 == in {
				found = true
				continue
			}
			if i2.Pos() < in.Pos() || (i2.Pos() == in.Pos() && !found) {
				n++
			}
		}
	}
	txt := e.sourceText(in)
	return fmt.Sprintf("%s#%d", txt, n)
}

func (e *fnEnc) sourceText(in ssa.Instruction) string {
	switch in := in.(type) {
	case *ssa.IndexAddr:
		return "index " + valLabel(in.X) + "[" + valLabel(in.Index) + "]"
	case *ssa.Index:
		return "index " + valLabel(in.X) + "[" + valLabel(in.Index) + "]"
	case *ssa.Lookup:
		return "index " + valLabel(in.X) + "[" + valLabel(in.Index) + "]"
	case *ssa.Slice:
		return "slice " + valLabel(in.X)
	case *ssa.BinOp:
		return in.Op.String()
	case *ssa.TypeAssert:
		return "assert " + types.TypeString(in.AssertedType, func(p *types.Package) string { return p.Name() })
	case *ssa.Convert:
		return "conv"
	case *ssa.UnOp:
		return "deref " + valLabel(in.X)
	case *ssa.FieldAddr:
		return "field " + valLabel(in.X)
	}
	return fmt.Sprintf("%T", in)
}

func valLabel(v ssa.Value) string {
	switch v := v.(type) {
	case *ssa.Parameter:
		return v.Name()
	case *ssa.Phi:
		if v.Comment != "" {
			return v.Comment
		}
	case *ssa.Const:
		return v.Value.String()
	case *ssa.FieldAddr:
		st := types.Unalias(v.X.Type().Underlying().(*types.Pointer).Elem()).Underlying().(*types.Struct)
		return valLabel(v.X) + "." + st.Field(v.Field).Name()
	case *ssa.UnOp:
		if v.Op == token.MUL {
			return valLabel(v.X)
		}
	case *ssa.Alloc:
		if v.Comment != "" {
			return v.Comment
		}
	case *ssa.Field:
		st := types.Unalias(v.X.Type()).Underlying().(*types.Struct)
		return valLabel(v.X) + "." + st.Field(v.Field).Name()
	}
	return "_"
}

func (e *fnEnc) unop(c *blockCtx, in *ssa.UnOp) {
	switch in.Op {
	case token.NOT:
		e.define(in, not(e.val(in.X)))
	case token.SUB:
		x := e.val(in.X)
		switch {
		case x.Sort.IsBV():
			e.define(in, app(x.Sort, "bvneg", x))
		case x.Sort == SReal:
			e.define(in, app(SReal, "-", x))
		default:
			e.define(in, e.wrap(app(SInt, "-", x), in.Type()))
		}
	case token.XOR:
		x := e.val(in.X)
		if x.Sort.IsBV() {
			e.define(in, app(x.Sort, "bvnot", x))
		} else {
			b := types.Unalias(in.Type()).Underlying().(*types.Basic)
			w, signed, _ := intWidth(b)
			if signed {
				e.define(in, sub(app(SInt, "-", x), intLit(1)))
			} else {
				e.define(in, sub(bigLit(new(big.Int).Sub(pow2(w), bigOne)), x))
			}
		}
	case token.MUL:
		e.load(c, in)
	case token.ARROW:
		// receive: unconstrained value
		v := e.freshConst(e.valName(in)+".recv", e.sortOfRecv(in))
		if in.CommaOk {
			ok := e.freshConst(e.valName(in)+".ok", SBool)
			e.tuples[in] = []Term{v, ok}
		} else {
			e.vals[in] = v
		}
		e.recvEffect(c, v, e.recvElemType(in)) // other goroutines may have run
	default:
		e.fail("unsupported unary op %s", in.Op)
	}
}

func (e *fnEnc) sortOfRecv(in *ssa.UnOp) Sort {
	t := in.Type()
	if tup, ok := t.(*types.Tuple); ok {
		t = tup.At(0).Type()
	}
	return e.sortOf(t)
}

// ---------- memory ----------

func (e *fnEnc) alloc(c *blockCtx, in *ssa.Alloc) {
	pt := in.Type().(*types.Pointer).Elem()
	r := e.newRef(c.st, "new."+in.Name())
	e.vals[in] = r
	switch u := types.Unalias(pt).Underlying().(type) {
	case *types.Struct:
		si := e.structOf(pt)
		e.zeroStruct(c.st, si, r)
	case *types.Array:
		es := e.sortOf(u.Elem())
		comp, cs := e.elemCompT(u.Elem())
		arr := e.heapGet2(c.st, comp, cs)
		inner := ArrayOf(SInt, es)
		e.setHeap(c.st, comp, store(arr, r, e.constArray(inner, e.zeroOfSort(es, u.Elem()))))
	default:
		lv := &LValue{kind: 0, ref: r, typ: pt}
		e.storeLVm(c.st, lv, e.zeroOf(pt))
	}
}

func (e *fnEnc) zeroStruct(st *state, si *structInfo, r Term) {
	for i, f := range si.fields {
		if f.embStruct {
			e.zeroStruct(st, e.structOf(f.typ), e.embApp(si, i, r))
			continue
		}
		comp, s := e.fieldComp(si, i)
		var z Term
		if f.ghost && f.typ == nil {
			z = e.freshConst("ghostzero", f.sort) // ghost value of a zero struct: given by axioms
			if ax := e.ghostZero(si, i); ax != nil {
				z = *ax
			}
		} else {
			z = e.zeroOfSort(f.sort, f.typ)
		}
		e.setHeap(st, comp, store(e.heapGet2(st, comp, s), r, z))
	}
}

// ghostZero: value of a ghost field in a zero-initialised struct (0 for numeric sorts).
func (e *fnEnc) ghostZero(si *structInfo, i int) *Term {
	switch si.fields[i].sort {
	case SReal:
		t := T(SReal, "0.0")
		return &t
	case SInt:
		t := intLit(0)
		return &t
	case SBool:
		return &tFalse
	}
	return nil
}

func (e *fnEnc) storeLVm(st *state, lv *LValue, v Term) {
	before := map[string]Term{}
	for k, t := range st.m {
		before[k] = t
	}
	e.storeLV(st, lv, v)
	for k, t := range st.m {
		if b, ok := before[k]; !ok || b.S != t.S {
			e.logMod(k, t.Sort)
		}
	}
}

func ptrElem(t types.Type) types.Type {
	return types.Unalias(t).Underlying().(*types.Pointer).Elem()
}

func (e *fnEnc) fieldAddr(c *blockCtx, in *ssa.FieldAddr) {
	st := ptrElem(in.X.Type())
	si := e.structOf(st)
	f := si.fields[in.Field]
	if lv, ok := e.lvals[in.X]; ok {
		nl := *lv
		nl.path = append(append([]pathStep{}, lv.path...), pathStep{si, in.Field})
		e.lvals[in] = &nl
		return
	}
	obj := e.val(in.X)
	if e.checkNil {
		e.obligation("nil", e.exprName(in), c.reach, not(eq(obj, intLit(0))), "nil dereference", e.posOf(in), false)
	}
	if f.embStruct {
		e.define(in, e.embApp(si, in.Field, obj))
		return
	}
	e.lvals[in] = &LValue{kind: 1, ref: obj, owner: si, field: in.Field, typ: f.typ}
}

func (e *fnEnc) indexAddr(c *blockCtx, in *ssa.IndexAddr) {
	idx := e.toInt(e.val(in.Index), in.Index.Type())
	switch t := types.Unalias(in.X.Type()).Underlying().(type) {
	case *types.Slice:
		s := e.val(in.X)
		if !e.noBounds {
			e.obligation("bounds", e.exprName(in), c.reach, and(le(intLit(0), idx), lt(idx, slLen(s))), "index in range", e.posOf(in), false)
		}
		e.lvals[in] = &LValue{kind: 2, ref: slBase(s), idx: add(slOff(s), idx), typ: t.Elem()}
	case *types.Pointer:
		at := types.Unalias(t.Elem()).Underlying().(*types.Array)
		if lv, ok := e.lvals[in.X]; ok {
			_ = lv
			e.fail("index into array inside another object")
		}
		r := e.val(in.X)
		if !e.noBounds {
			e.obligation("bounds", e.exprName(in), c.reach, and(le(intLit(0), idx), lt(idx, intLit(at.Len()))), "index in range", e.posOf(in), false)
		}
		e.lvals[in] = &LValue{kind: 2, ref: r, idx: idx, typ: at.Elem()}
	default:
		e.fail("IndexAddr on %s", in.X.Type())
	}
}

func (e *fnEnc) toInt(t Term, typ types.Type) Term {
	if t.Sort.IsBV() {
		_, signed, _ := intWidth(types.Unalias(typ).Underlying().(*types.Basic))
		n := app(SInt, "bv2nat", t)
		if signed {
			w := t.Sort.BVWidth()
			return ite(app(SBool, "bvslt", t, bvLit(big.NewInt(0), w)), sub(n, bigLit(pow2(w))), n)
		}
		return n
	}
	return t
}

func (e *fnEnc) index(c *blockCtx, in *ssa.Index) {
	idx := e.toInt(e.val(in.Index), in.Index.Type())
	x := e.val(in.X)
	switch t := types.Unalias(in.X.Type()).Underlying().(type) {
	case *types.Basic: // string
		if x.Sort != SStr {
			e.fail("index on abstract string")
		}
		if !e.noBounds {
			e.obligation("bounds", e.exprName(in), c.reach, and(le(intLit(0), idx), lt(idx, strLen(x))), "index in range", e.posOf(in), false)
		}
		v := e.declare(e.valName(in), e.sortOf(in.Type()))
		ch := strAt(x, idx)
		if v.Sort.IsBV() {
			e.assert(eq(app(SInt, "bv2nat", v), ch))
		} else {
			e.assert(eq(v, ch))
		}
		e.assert(e.byteRange(ch))
		e.vals[in] = v
	case *types.Array:
		if !e.noBounds {
			e.obligation("bounds", e.exprName(in), c.reach, and(le(intLit(0), idx), lt(idx, intLit(t.Len()))), "index in range", e.posOf(in), false)
		}
		e.define(in, sel(x, idx, e.sortOf(t.Elem())))
	default:
		e.fail("Index on %s", in.X.Type())
	}
}

func (e *fnEnc) byteRange(ch Term) Term { return and(le(intLit(0), ch), le(ch, intLit(255))) }

func (e *fnEnc) load(c *blockCtx, in *ssa.UnOp) {
	e.guardedAccess(c, in, in.X, false)
	pt := ptrElem(in.X.Type())
	if lv, ok := e.lvals[in.X]; ok {
		v := e.loadLV(c.st, lv)
		e.defineLoaded(c, in, v, pt)
		return
	}
	p := e.val(in.X)
	if e.checkNil {
		e.obligation("nil", e.exprName(in), c.reach, not(eq(p, intLit(0))), "nil dereference", e.posOf(in), false)
	}
	if isStructType(pt) {
		e.defineLoaded(c, in, e.loadStruct(c.st, e.structOf(pt), p), pt)
		return
	}
	if _, isArr := types.Unalias(pt).Underlying().(*types.Array); isArr {
		es := e.sortOf(pt.Underlying().(*types.Array).Elem())
		comp, cs := e.elemCompT(pt.Underlying().(*types.Array).Elem())
		e.defineLoaded(c, in, sel(e.heapGet2(c.st, comp, cs), p, ArrayOf(SInt, es)), pt)
		return
	}
	lv := &LValue{kind: 0, ref: p, typ: pt}
	e.defineLoaded(c, in, e.loadLV(c.st, lv), pt)
}

func (e *fnEnc) defineLoaded(c *blockCtx, v ssa.Value, t Term, typ types.Type) {
	e.define(v, t)
	e.assert(e.rangeOf(e.vals[v], typ))
	e.assert(e.existsAt(e.vals[v], typ, c.st.alloc))
}

func (e *fnEnc) store(c *blockCtx, in *ssa.Store) {
	e.guardedAccess(c, in, in.Addr, true)
	v := e.val(in.Val)
	if lv, ok := e.lvals[in.Addr]; ok {
		e.storeLVm(c.st, lv, v)
		return
	}
	p := e.val(in.Addr)
	pt := ptrElem(in.Addr.Type())
	if isStructType(pt) {
		before := len(c.st.m)
		_ = before
		si := e.structOf(pt)
		e.storeStructM(c.st, si, p, v)
		return
	}
	if at, isArr := types.Unalias(pt).Underlying().(*types.Array); isArr {
		comp, cs := e.elemCompT(at.Elem())
		e.setHeap(c.st, comp, store(e.heapGet2(c.st, comp, cs), p, v))
		return
	}
	lv := &LValue{kind: 0, ref: p, typ: pt}
	e.storeLVm(c.st, lv, v)
}

func (e *fnEnc) storeStructM(st *state, si *structInfo, p Term, rec Term) {
	for i, f := range si.fields {
		if f.embStruct {
			e.storeStructM(st, e.structOf(f.typ), e.embApp(si, i, p), e.proj(si, rec, i))
			continue
		}
		comp, s := e.fieldComp(si, i)
		e.setHeap(st, comp, store(e.heapGet2(st, comp, s), p, e.proj(si, rec, i)))
	}
}

func (e *fnEnc) slice(c *blockCtx, in *ssa.Slice) {
	var lo, hi, max Term
	if in.Low != nil {
		lo = e.toInt(e.val(in.Low), in.Low.Type())
	} else {
		lo = intLit(0)
	}
	switch t := types.Unalias(in.X.Type()).Underlying().(type) {
	case *types.Basic:
		x := e.val(in.X)
		if x.Sort != SStr {
			e.fail("slice of abstract string")
		}
		if in.High != nil {
			hi = e.toInt(e.val(in.High), in.High.Type())
		} else {
			hi = strLen(x)
		}
		if !e.noBounds {
			e.obligation("bounds", e.exprName(in), c.reach, and(le(intLit(0), lo), le(lo, hi), le(hi, strLen(x))), "slice bounds in range", e.posOf(in), false)
		}
		e.define(in, app(SStr, "mk-str", strArr(x), add(strOff(x), lo), sub(hi, lo)))
	case *types.Slice:
		x := e.val(in.X)
		if in.High != nil {
			hi = e.toInt(e.val(in.High), in.High.Type())
		} else {
			hi = slLen(x)
		}
		if in.Max != nil {
			max = e.toInt(e.val(in.Max), in.Max.Type())
		} else {
			max = slCap(x)
		}
		if !e.noBounds {
			e.obligation("bounds", e.exprName(in), c.reach, and(le(intLit(0), lo), le(lo, hi), le(hi, max), le(max, slCap(x))), "slice bounds in range", e.posOf(in), false)
		}
		e.define(in, app(SSlice, "mk-slice", slBase(x), add(slOff(x), lo), sub(hi, lo), sub(max, lo)))
	case *types.Pointer:
		at := types.Unalias(t.Elem()).Underlying().(*types.Array)
		var r Term
		if lv, ok := e.lvals[in.X]; ok && lv.kind == 1 && len(lv.path) == 0 && isLocalAllocField(in.X) {
			// (&obj.arr)[lo:hi] for an array stored inline in a struct that this
			// function has just allocated: the backing store is a separate fresh
			// region (it cannot alias any other object). Its contents are not
			// connected to direct reads of obj.arr (recorded as an assumption).
			key := "inlinearr:" + lv.ref.S + "." + lv.owner.fields[lv.field].name
			if t, ok := e.inlineArr[key]; ok {
				r = t
			} else {
				r = e.newRef(c.st, "inlinearr")
				if e.inlineArr == nil {
					e.inlineArr = map[string]Term{}
				}
				e.inlineArr[key] = r
			}
			e.assumptions["inline array field of a local allocation sliced: element contents not related to direct reads of the field ("+lv.owner.name+"."+lv.owner.fields[lv.field].name+")"] = true
		} else {
			r = e.val(in.X)
		}
		n := intLit(at.Len())
		if in.High != nil {
			hi = e.toInt(e.val(in.High), in.High.Type())
		} else {
			hi = n
		}
		if !e.noBounds {
			e.obligation("bounds", e.exprName(in), c.reach, and(le(intLit(0), lo), le(lo, hi), le(hi, n)), "slice bounds in range", e.posOf(in), false)
		}
		e.define(in, app(SSlice, "mk-slice", r, lo, sub(hi, lo), sub(n, lo)))
	default:
		e.fail("Slice on %s", in.X.Type())
	}
}

// isLocalAllocField: v is &x.f with x allocated by this function.
func isLocalAllocField(v ssa.Value) bool {
	fa, ok := v.(*ssa.FieldAddr)
	if !ok {
		return false
	}
	_, ok = fa.X.(*ssa.Alloc)
	return ok
}

func (e *fnEnc) makeSlice(c *blockCtx, in *ssa.MakeSlice) {
	r := e.newRef(c.st, "mkslice")
	n := e.toInt(e.val(in.Len), in.Len.Type())
	cp := e.toInt(e.val(in.Cap), in.Cap.Type())
	et := in.Type().Underlying().(*types.Slice).Elem()
	es := e.sortOf(et)
	comp, cs := e.elemCompT(et)
	inner := ArrayOf(SInt, es)
	e.setHeap(c.st, comp, store(e.heapGet2(c.st, comp, cs), r, e.constArray(inner, e.zeroOfSort(es, et))))
	if !e.mayPanic {
		e.obligation("bounds", e.exprName(in), c.reach, and(le(intLit(0), n), le(n, cp)), "make: 0 <= len <= cap", e.posOf(in), false)
	}
	e.define(in, app(SSlice, "mk-slice", r, intLit(0), n, cp))
}

// ---------- conversions ----------

func (e *fnEnc) convert(c *blockCtx, x Term, from, to types.Type) Term {
	ts := e.sortOf(to)
	fb, fok := types.Unalias(from).Underlying().(*types.Basic)
	tb, tok := types.Unalias(to).Underlying().(*types.Basic)
	if fok && tok && fb.Info()&types.IsInteger != 0 && tb.Info()&types.IsInteger != 0 {
		fw, fs, _ := intWidth(fb)
		tw, tsg, _ := intWidth(tb)
		switch {
		case x.Sort == SInt && ts == SInt:
			// value preserved if it fits; otherwise wrap
			if (fs == tsg && tw >= fw) || (!fs && tsg && tw > fw) {
				return x
			}
			if !tsg {
				return app(SInt, "mod", x, bigLit(pow2(tw)))
			}
			h := bigLit(pow2(tw - 1))
			return sub(app(SInt, "mod", add(x, h), bigLit(pow2(tw))), h)
		case x.Sort.IsBV() && ts.IsBV():
			if fw == tw {
				return x
			}
			if tw < fw {
				return app(ts, fmt.Sprintf("(_ extract %d 0)", tw-1), x)
			}
			if fs {
				return app(ts, fmt.Sprintf("(_ sign_extend %d)", tw-fw), x)
			}
			return app(ts, fmt.Sprintf("(_ zero_extend %d)", tw-fw), x)
		case x.Sort.IsBV() && ts == SInt:
			n := e.toInt(x, from)
			return e.convert(c, n, from, to)
		case x.Sort == SInt && ts.IsBV():
			if bi, ok := e.constOfTerm(x); ok {
				return bvLit(bi, tw)
			}
			return app(ts, fmt.Sprintf("(_ int2bv %d)", tw), x)
		}
	}
	if x.Sort == ts && fok && tok {
		return x
	}
	// string <-> []byte
	if fok && fb.Info()&types.IsString != 0 {
		if sl, ok := types.Unalias(to).Underlying().(*types.Slice); ok && x.Sort == SStr {
			if b, ok := sl.Elem().Underlying().(*types.Basic); ok && b.Kind() == types.Uint8 {
				r := e.newRef(c.st, "bytes")
				es := e.sortOf(sl.Elem())
				if es != SInt {
					e.fail("[]byte conversion in bv mode")
				}
				comp, cs := e.elemCompT(sl.Elem())
				e.setHeap(c.st, comp, store(e.heapGet2(c.st, comp, cs), r, strArr(x)))
				return app(SSlice, "mk-slice", r, strOff(x), strLen(x), strLen(x))
			}
		}
	}
	if tok && tb.Info()&types.IsString != 0 {
		if sl, ok := types.Unalias(from).Underlying().(*types.Slice); ok && ts == SStr {
			if b, ok := sl.Elem().Underlying().(*types.Basic); ok && b.Kind() == types.Uint8 {
				es := e.sortOf(sl.Elem())
				if es != SInt {
					e.fail("string(bytes) conversion in bv mode")
				}
				comp, cs := e.elemCompT(sl.Elem())
				arr := sel(e.heapGet2(c.st, comp, cs), slBase(x), ArrayOf(SInt, SInt))
				return app(SStr, "mk-str", arr, slOff(x), slLen(x))
			}
		}
		// string(rune) etc: unconstrained string
		v := e.freshConst("strconv", ts)
		e.assert(e.rangeOf(v, to))
		return v
	}
	if x.Sort == ts {
		return x
	}
	if tok && tb.Info()&types.IsFloat != 0 && x.Sort == SInt {
		return app(SReal, "to_real", x)
	}
	if fok && fb.Info()&types.IsFloat != 0 && ts == SInt {
		// truncation toward zero
		fl := app(SInt, "to_int", x)
		return ite(le(T(SReal, "0.0"), x), fl, app(SInt, "-", app(SInt, "to_int", app(SReal, "-", x))))
	}
	e.fail("unsupported conversion %s -> %s", from, to)
	return Term{}
}

// ---------- interfaces ----------

func isPointerLike(t types.Type) bool {
	switch types.Unalias(t).Underlying().(type) {
	case *types.Pointer, *types.Map, *types.Chan, *types.Signature:
		return true
	}
	return false
}

func (e *fnEnc) tagOf(t types.Type) Term { return intLit(int64(e.eng.typeID(t))) }

func (e *fnEnc) makeInterface(c *blockCtx, in *ssa.MakeInterface) {
	x := e.val(in.X)
	xt := in.X.Type()
	_, isTP := types.Unalias(xt).(*types.TypeParam)
	if _, isIface := types.Unalias(xt).Underlying().(*types.Interface); isIface && !isTP {
		e.define(in, x)
		return
	}
	tag := e.tagOf(xt)
	if isPointerLike(xt) {
		e.define(in, app(SIface, "mk-iface", tag, x))
		return
	}
	// boxed value; the box is immutable, identified by a fresh reference
	r := e.newRef(c.st, "box")
	comp, cs := e.boxComp(x.Sort)
	e.setHeap(c.st, comp, store(e.heapGet2(c.st, comp, cs), r, x))
	e.define(in, app(SIface, "mk-iface", tag, r))
}

func (e *fnEnc) ifaceValue(st *state, x Term, t types.Type) Term {
	if isPointerLike(t) {
		return ifPtr(x)
	}
	s := e.sortOf(t)
	comp, cs := e.boxComp(s)
	return sel(e.heapGet2(st, comp, cs), ifPtr(x), s)
}

// hasType: the dynamic type of interface value x is / implements t.
func (e *fnEnc) hasType(x Term, t types.Type) Term {
	if it, ok := types.Unalias(t).Underlying().(*types.Interface); ok {
		if it.NumMethods() == 0 {
			return not(eq(ifTag(x), intLit(0)))
		}
		f := e.declareFun("implements."+types.TypeString(t, nil), []Sort{SInt}, SBool)
		key := "implfacts." + f
		if !e.declSeen[key] {
			e.declSeen[key] = true
			e.assertGlobal(not(app(SBool, f, intLit(0))))
		}
		// facts for all known type ids are added when the script is printed
		e.implFns[f] = it
		return app(SBool, f, ifTag(x))
	}
	return eq(ifTag(x), e.tagOf(t))
}

func (e *fnEnc) typeAssert(c *blockCtx, in *ssa.TypeAssert) {
	x := e.val(in.X)
	ok := e.hasType(x, in.AssertedType)
	_, toIface := types.Unalias(in.AssertedType).Underlying().(*types.Interface)
	var v Term
	if toIface {
		v = x
	} else {
		v = e.ifaceValue(c.st, x, in.AssertedType)
	}
	if in.CommaOk {
		okc := e.declare(e.valName(in)+".ok", SBool)
		e.assert(eq(okc, ok))
		vc := e.declare(e.valName(in)+".v", v.Sort)
		e.assert(eq(vc, ite(okc, v, e.zeroOf(in.AssertedType))))
		e.assert(imp(okc, e.rangeOf(vc, in.AssertedType)))
		e.tuples[in] = []Term{vc, okc}
		return
	}
	if !e.mayPanic {
		e.obligation("assert-type", e.exprName(in), c.reach, ok, "type assertion must hold", e.posOf(in), false)
	}
	e.define(in, v)
	e.assert(e.rangeOf(e.vals[in], in.AssertedType))
}

// ---------- maps ----------

func (e *fnEnc) mapSorts(t types.Type) (k, v Sort, mt *types.Map) {
	mt = types.Unalias(t).Underlying().(*types.Map)
	return e.sortOf(mt.Key()), e.sortOf(mt.Elem()), mt
}

func (e *fnEnc) mapUpdate(c *blockCtx, in *ssa.MapUpdate) {
	e.guardedAccess(c, in, in.Map, true)
	m := e.val(in.Map)
	ks, vs, _ := e.mapSorts(in.Map.Type())
	dc, ds, vc, vsrt := e.mapComps(ks, vs)
	k, v := e.val(in.Key), e.val(in.Value)
	if !e.mayPanic {
		e.obligation("nil", "map "+valLabel(in.Map), c.reach, not(eq(m, intLit(0))), "assignment to entry in nil map", e.posOf(in), false)
	}
	dom := e.heapGet2(c.st, dc, ds)
	val := e.heapGet2(c.st, vc, vsrt)
	e.setHeap(c.st, dc, store(dom, m, store(sel(dom, m, ArrayOf(ks, SBool)), k, tTrue)))
	e.setHeap(c.st, vc, store(val, m, store(sel(val, m, ArrayOf(ks, vs)), k, v)))
}

func (e *fnEnc) lookup(c *blockCtx, in *ssa.Lookup) {
	e.guardedAccess(c, in, in.X, false)
	x := e.val(in.X)
	if _, isMap := types.Unalias(in.X.Type()).Underlying().(*types.Map); !isMap {
		// string index s[i]
		idx := e.toInt(e.val(in.Index), in.Index.Type())
		if !e.noBounds {
			e.obligation("bounds", e.exprName(in), c.reach, and(le(intLit(0), idx), lt(idx, strLen(x))), "index in range", e.posOf(in), false)
		}
		ch := strAt(x, idx)
		v := e.declare(e.valName(in), e.sortOf(in.Type()))
		if v.Sort.IsBV() {
			e.assert(eq(app(SInt, "bv2nat", v), ch))
		} else {
			e.assert(eq(v, ch))
		}
		e.assert(e.byteRange(ch))
		e.vals[in] = v
		return
	}
	ks, vs, mt := e.mapSorts(in.X.Type())
	dc, ds, vc, vsrt := e.mapComps(ks, vs)
	k := e.val(in.Index)
	dom := sel(sel(e.heapGet2(c.st, dc, ds), x, ArrayOf(ks, SBool)), k, SBool)
	has := and(not(eq(x, intLit(0))), dom)
	raw := sel(sel(e.heapGet2(c.st, vc, vsrt), x, ArrayOf(ks, vs)), k, vs)
	val := ite(has, raw, e.zeroOf(mt.Elem()))
	if in.CommaOk {
		okc := e.declare(e.valName(in)+".ok", SBool)
		e.assert(eq(okc, has))
		vcn := e.declare(e.valName(in)+".v", vs)
		e.assert(eq(vcn, val))
		e.assert(e.rangeOf(vcn, mt.Elem()))
		e.assert(e.existsAt(vcn, mt.Elem(), c.st.alloc))
		e.tuples[in] = []Term{vcn, okc}
		return
	}
	e.defineLoaded(c, in, val, mt.Elem())
}

// ---------- range over strings / maps ----------

func (e *fnEnc) rangeOrdinal(in *ssa.Range) int {
	n := 0
	for _, b := range e.fn.Blocks {
		for _, i2 := range b.Instrs {
			if r, ok := i2.(*ssa.Range); ok && r != in && r.Pos() < in.Pos() {
				n++
			}
		}
	}
	return n
}

func (e *fnEnc) iterComp(ord int) (string, Sort) { return fmt.Sprintf("Iter.pos.%d", ord), SInt }

func (e *fnEnc) rangeInstr(c *blockCtx, in *ssa.Range) {
	if _, isMap := types.Unalias(in.X.Type()).Underlying().(*types.Map); isMap {
		e.fail("range over map (iteration order is unspecified)")
	}
	x := e.val(in.X)
	if x.Sort != SStr {
		e.fail("range over abstract string")
	}
	comp, _ := e.iterComp(e.rangeOrdinal(in))
	e.setHeap(c.st, comp, intLit(0))
	e.vals[in] = intLit(0)
}

func (e *fnEnc) next(c *blockCtx, in *ssa.Next) {
	if !in.IsString {
		e.fail("next on map iterator")
	}
	rg := in.Iter.(*ssa.Range)
	s := e.val(rg.X)
	comp, cs := e.iterComp(e.rangeOrdinal(rg))
	pos := e.heapGet2(c.st, comp, cs)
	okc := e.declare(e.valName(in)+".ok", SBool)
	e.assert(eq(okc, lt(pos, strLen(s))))
	k := e.declare(e.valName(in)+".k", SInt)
	e.assert(eq(k, pos))
	r := e.declare(e.valName(in)+".r", SInt)
	w := e.declare(e.valName(in)+".w", SInt)
	b0 := strAt(s, pos)
	e.assert(imp(okc, and(
		le(intLit(1), w), le(w, intLit(4)), le(add(pos, w), strLen(s)),
		e.byteRange(b0),
		imp(lt(b0, intLit(128)), and(eq(r, b0), eq(w, intLit(1)))),
		imp(le(intLit(128), b0), or(le(intLit(128), r), eq(r, intLit(0xFFFD)))),
		imp(le(intLit(128), b0), or(eq(r, intLit(0xFFFD)), lt(intLit(1), w))),
		imp(and(le(intLit(128), b0), eq(r, intLit(0xFFFD)), not(eq(w, intLit(3)))), eq(w, intLit(1))),
		// continuation bytes of a multi-byte encoding are >= 0x80
		imp(le(intLit(2), w), le(intLit(128), strAt(s, add(pos, intLit(1))))),
		imp(le(intLit(3), w), le(intLit(128), strAt(s, add(pos, intLit(2))))),
		imp(le(intLit(4), w), le(intLit(128), strAt(s, add(pos, intLit(3))))),
		le(intLit(0), r), le(r, intLit(0x10FFFF)),
	)))
	e.setHeap(c.st, comp, ite(okc, add(pos, w), pos))
	rv := r
	if s2 := e.sortOf(types.Typ[types.Int32]); s2.IsBV() {
		rv = app(s2, "(_ int2bv 32)", r)
	}
	kv := k
	if s2 := e.sortOf(types.Typ[types.Int]); s2.IsBV() {
		kv = app(s2, "(_ int2bv 64)", k)
	}
	e.tuples[in] = []Term{okc, kv, rv}
}

func (e *fnEnc) selectInstr(c *blockCtx, in *ssa.Select) {
	// index is unconstrained in range, received values unconstrained
	idx := e.freshConst(e.valName(in)+".idx", SInt)
	n := int64(len(in.States))
	lo := int64(0)
	if !in.Blocking {
		lo = -1
	}
	e.assert(and(le(intLit(lo), idx), lt(idx, intLit(n))))
	recvOk := e.freshConst(e.valName(in)+".recvok", SBool)
	res := []Term{idx, recvOk}
	for _, s := range in.States {
		if s.Dir == types.RecvOnly {
			ct := types.Unalias(s.Chan.Type()).Underlying().(*types.Chan)
			v := e.freshConst(e.valName(in)+".recv", e.sortOf(ct.Elem()))
			e.assert(e.rangeOf(v, ct.Elem()))
			res = append(res, v)
		}
	}
	var recvVal Term
	var recvType types.Type
	for i, s := range in.States {
		if s.Dir == types.RecvOnly {
			recvVal = res[2+countRecvBefore(in, i)]
			recvType = types.Unalias(s.Chan.Type()).Underlying().(*types.Chan).Elem()
		}
	}
	e.recvEffect(c, recvVal, recvType)
	e.tuples[in] = res
}

func countRecvBefore(in *ssa.Select, i int) int {
	n := 0
	for j := 0; j < i; j++ {
		if in.States[j].Dir == types.RecvOnly {
			n++
		}
	}
	return n
}

func (e *fnEnc) recvElemType(in *ssa.UnOp) types.Type {
	return types.Unalias(in.X.Type()).Underlying().(*types.Chan).Elem()
}

// recvEffect: a channel receive lets other goroutines run. Without a declared
// channel contract the whole heap is forgotten; with `recv_assigns` only the
// listed locations are, and `recv_ensures` (over `recv`, the received value) is
// assumed (an assumed channel contract, listed in the evidence).
func (e *fnEnc) recvEffect(c *blockCtx, v Term, t types.Type) {
	as := e.ctr.Get("recv_assigns")
	if len(as) == 0 {
		e.havocAll(c.st)
		return
	}
	pseudo := &FuncContract{Pkg: e.pkg, Options: map[string]string{}}
	for _, cl := range as {
		pseudo.Clauses = append(pseudo.Clauses, &Clause{Kind: "assigns", Text: cl.Text})
	}
	env := e.envAt(c.b, e.curIdx, c.st)
	e.applyAssigns(c, pseudo, env)
	env = e.envAt(c.b, e.curIdx, c.st)
	if v.S != "" {
		env.vars["recv"] = SVal{t: v, typ: t}
	}
	for _, cl := range e.ctr.Get("recv_ensures") {
		e.assert(imp(c.reach, e.evalBool(cl.E, env)))
	}
	e.assume("assumed channel contract in " + e.shortFuncName() + ": a receive changes only the declared locations and delivers a value satisfying recv_ensures")
}
