package main

import (
	"flag"
	"fmt"
	"os"
	"sort"
	"strings"
	"time"
)

func main() {
	if len(os.Args) < 2 {
		fmt.Fprintln(os.Stderr, "usage: govc dev|check|lemmas ...")
		os.Exit(2)
	}
	switch os.Args[1] {
	case "dev":
		devCmd(os.Args[2:])
	case "check":
		checkCmd(os.Args[2:])
	case "replay":
		replayCmd(os.Args[2:])
	case "sweep":
		sweepCmd(os.Args[2:])
	case "selftest":
		selftestCmd(os.Args[2:])
	default:
		fmt.Fprintln(os.Stderr, "unknown command")
		os.Exit(2)
	}
}

func devCmd(args []string) {
	fs := flag.NewFlagSet("dev", flag.ExitOnError)
	pkgs := fs.String("pkgs", "", "comma separated package patterns")
	fn := fs.String("func", "", "function (as in contract files), comma separated")
	specs := fs.String("specs", "", "extra spec files")
	out := fs.String("out", "/tmp/govc_out", "output dir")
	timeout := fs.Duration("timeout", 10*time.Second, "solver timeout")
	dump := fs.Bool("dump", false, "dump SSA")
	subst := fs.String("sub", "", "in-memory mutation: relpath::old::new")
	addfile := fs.String("addfile", "", "overlay a new file: relpath=localfile[,relpath=localfile]")
	repoDir := fs.String("repo", "/repo", "repository root")
	fs.Parse(args)
	eng := NewEngine(*repoDir)
	if *addfile != "" {
		if eng.Overlay == nil {
			eng.Overlay = map[string][]byte{}
		}
		for _, kv := range strings.Split(*addfile, ",") {
			p := strings.SplitN(kv, "=", 2)
			data, err := os.ReadFile(p[1])
			if err != nil {
				panic(err)
			}
			eng.Overlay[*repoDir+"/"+p[0]] = data
		}
	}
	if *subst != "" {
		parts := strings.SplitN(*subst, "::", 3)
		path := *repoDir + "/" + parts[0]
		data, err := os.ReadFile(path)
		if err != nil {
			panic(err)
		}
		if !strings.Contains(string(data), parts[1]) {
			fmt.Println("mutation pattern not found")
			os.Exit(2)
		}
		if eng.Overlay == nil {
			eng.Overlay = map[string][]byte{}
		}
		eng.Overlay[path] = []byte(strings.Replace(string(data), parts[1], parts[2], 1))
	}
	t0 := time.Now()
	if err := eng.Load(strings.Split(*pkgs, ",")); err != nil {
		fmt.Println("load:", err)
		os.Exit(2)
	}
	var sf []string
	if *specs != "" {
		sf = strings.Split(*specs, ",")
	}
	if err := eng.LoadContracts(sf); err != nil {
		fmt.Println("contracts:", err)
		os.Exit(2)
	}
	fmt.Printf("loaded in %.1fs, %d contracts\n", time.Since(t0).Seconds(), len(eng.contracts))
	var names []string
	if *fn == "" {
		for n, c := range eng.contracts {
			if !c.Assumed {
				names = append(names, n)
			}
		}
		sort.Strings(names)
	} else {
		for _, f := range strings.Split(*fn, ",") {
			found := false
			for n := range eng.funcs {
				if n == f || strings.HasSuffix(n, "."+f) || strings.HasSuffix(n, "/"+f) {
					names = append(names, n)
					found = true
				}
			}
			if !found {
				fmt.Println("no function matches", f)
			}
		}
	}
	for _, n := range names {
		if *dump {
			eng.funcs[n].WriteTo(os.Stdout)
		}
		enc, err := eng.EncodeFunc(n)
		if err != nil {
			fmt.Printf("%s: %v\n", n, err)
			continue
		}
		for a := range enc.assumptions {
			if strings.HasPrefix(a, "uncontracted") {
				fmt.Println("  note:", a)
			}
		}
		res := SolveAll(enc.obls, *out, *timeout, 6, true)
		for _, o := range enc.obls {
			r := res[o]
			want := "unsat"
			if o.Cover {
				want = "sat"
			}
			mark := "ok  "
			if r.Status != want {
				mark = "FAIL"
			}
			fmt.Printf("%s %-70s %-8s %-10s %.2fs %s\n", mark, o.Name, r.Status, r.Backend, r.Seconds, o.Pos)
			if r.Status == "error" {
				fmt.Println(firstLines(r.Output, 5))
			}
		}
	}
}

func firstLines(s string, n int) string {
	l := strings.Split(s, "\n")
	if len(l) > n {
		l = l[:n]
	}
	return strings.Join(l, "\n")
}
