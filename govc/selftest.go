package main

import (
	"bytes"
	"encoding/json"
	"flag"
	"fmt"
	"io"
	"os"
	"path/filepath"
	"strings"
)

// Mutant is one deliberate edit applied in memory (packages.Config.Overlay).
type Mutant struct {
	Name   string `json:"name"`
	File   string `json:"file"` // relative to the repository
	Old    string `json:"old"`
	New    string `json:"new"`
	Kind   string `json:"kind"`   // must-fail | must-pass
	Expect string `json:"expect"` // substring of the obligation that must be reported
	Note   string `json:"note"`
}

func selftestCmd(args []string) {
	fs := flag.NewFlagSet("selftest", flag.ExitOnError)
	prop := fs.String("prop", "", "property id")
	repo := fs.String("repo", "/repo", "repository")
	only := fs.String("only", "", "run only the mutant with this name")
	fs.Parse(args)
	os.Exit(runSelftest(*prop, *repo, os.Stdout, *only))
}

func runSelftest(id, repo string, w io.Writer, only string) int {
	data, err := os.ReadFile(filepath.Join(verifDir, "selftest", id+".json"))
	if err != nil {
		fmt.Fprintf(w, "selftest %s: no corpus (%v)\n", id, err)
		return 0
	}
	var corpus struct {
		Mutants []Mutant `json:"mutants"`
	}
	if err := json.Unmarshal(data, &corpus); err != nil {
		fmt.Fprintln(w, "selftest corpus:", err)
		return 2
	}
	bad := 0
	for _, m := range corpus.Mutants {
		if only != "" && m.Name != only {
			continue
		}
		path := filepath.Join(repo, m.File)
		src, err := os.ReadFile(path)
		if err != nil {
			fmt.Fprintf(w, "selftest %s/%s: %v\n", id, m.Name, err)
			bad++
			continue
		}
		if strings.Count(string(src), m.Old) != 1 {
			fmt.Fprintf(w, "selftest %s/%s: SKIP pattern occurs %d times in %s (the code changed; mutant not applicable)\n", id, m.Name, strings.Count(string(src), m.Old), m.File)
			continue
		}
		overlay := map[string][]byte{path: []byte(strings.Replace(string(src), m.Old, m.New, 1))}
		var buf bytes.Buffer
		forceLastResort = m.Kind == "must-pass"
		code, out := runCheck(id, "quick", 0, repo, overlay, false, false, &buf, false)
		forceLastResort = false
		ok := false
		switch m.Kind {
		case "must-fail":
			if code == 1 {
				for _, v := range out.Reports {
					if v.Verdict == "VIOLATION" && strings.Contains(v.Name, m.Expect) {
						ok = true
					}
				}
			}
		case "must-pass":
			// a harmless change must not raise an alarm and must not orphan a contract;
			// undecided obligations outside the baseline (slow covers etc.) do not count
			ok = code == 0 && len(out.Violations) == 0
			for _, u := range out.Undecided {
				if strings.HasPrefix(u, "orphan") || strings.HasPrefix(u, "vacuous") || strings.HasPrefix(u, "no contract") {
					ok = false
				}
			}
		}
		status := "ok"
		if !ok {
			status = "UNEXPECTED"
			bad++
		}
		fmt.Fprintf(w, "selftest %s/%s (%s): %s (exit %d, %d violations, %d undecided)\n", id, m.Name, m.Kind, status, code, len(out.Violations), len(out.Undecided))
		if !ok {
			fmt.Fprintln(w, indent(buf.String()))
		}
	}
	if bad > 0 {
		return 3
	}
	return 0
}

func indent(s string) string {
	return "    " + strings.ReplaceAll(strings.TrimSpace(s), "\n", "\n    ")
}
