package main

import (
	"fmt"
	"go/ast"
	"os"
	"go/token"
	"math/big"
	"go/types"
	"sort"
	"strings"

	"golang.org/x/tools/go/ssa"
)

// Obligation is one proof obligation: prefix constraints ∧ Reach ∧ ¬Goal must be unsat.
type Obligation struct {
	Name   string
	Kind   string
	Func   string
	Prefix int // number of constraints (enc.cons) visible
	Reach  Term
	Goal   Term
	Src    string // source text / clause text
	Pos    string
	Cover  bool // a cover query: prefix ∧ Reach must be SAT
	enc    *fnEnc
	NoAxioms bool
	Cases  []string // case split: the obligation is discharged per case (the cases cover Reach)
	Extra  []string // extra assertions (known-finding class negation etc.)
}

type outOfSubset struct{ msg string }

func (o outOfSubset) Error() string { return o.msg }

type fnEnc struct {
	stable     []*ssa.Alloc
	stableDone bool
	// inlining of small helper functions without a contract (see inline.go)
	ns        string            // name space of the SSA names of the function being inlined
	inlCount  int
	inlDepth  int
	inlEntry  *retPoint         // entry state/reach of the function being inlined
	hostBlock *ssa.BasicBlock   // block of the outermost function that contains the inlined call
	eng  *Engine
	fn   *ssa.Function
	name string
	ctr  *FuncContract
	pkg  string // package path for name resolution in the contract

	arithBV     bool
	strAbstract bool
	checkNil    bool
	noBounds    bool
	mayPanic    bool

	// SMT script pieces
	sortDecls []string
	sortSeen  map[Sort]bool
	decls     []string
	declSeen  map[string]bool
	cons      []string // assertions in order
	structs   map[string]*structInfo
	fresh     int

	vals   map[ssa.Value]Term
	lvals  map[ssa.Value]*LValue
	tuples map[ssa.Value][]Term
	closures map[ssa.Value]*ssa.MakeClosure

	reach    map[*ssa.BasicBlock]Term
	outSt    map[*ssa.BasicBlock]*state
	edge     map[[2]int]Term
	entrySt  *state
	paramVal map[string]SVal
	allocCtr map[*ssa.BasicBlock]Term

	loops     []*loopInfo // by ordinal (source order of header position)
	loopOf    map[*ssa.BasicBlock]*loopInfo
	backEdge  map[[2]int]bool
	order     []*ssa.BasicBlock

	obls     []*Obligation
	oblNames map[string]int
	assumptions map[string]bool
	inlineArr   map[string]Term // fresh backing stores of sliced inline array fields
	strLits  map[string]Term
	ghostVars map[string]Term // ghost (function-level) variables
	implFns   map[string]*types.Interface
	embIDs    map[string]int
	invUse    map[string]bool
	acquired  map[string]*state
	fieldGuardCount map[string]int

	deferred map[*ssa.BasicBlock][]*ssa.Defer // not path sensitive: in order of appearance
	curBlock *ssa.BasicBlock
	curIdx   int
	retSt    []*retPoint
	retGoals [][]Term
	curArgs  []Term
	tpBind   map[string]types.Type
	ghostTouched bool
	alwaysCount int
	curBindings map[string]SVal
	orphanClauses []string
	backGoals map[int][]*backEdgeGoals
}

type retPoint struct {
	block   *ssa.BasicBlock
	results []Term
	st      *state
	reach   Term
}

type loopInfo struct {
	ord    int
	header *ssa.BasicBlock
	body   map[*ssa.BasicBlock]bool
	pos    token.Pos
	unroll int
}

type structInfo struct {
	sort   Sort
	name   string
	typ    types.Type // named or struct
	st     *types.Struct
	fields []fieldInfo
}

type fieldInfo struct {
	name   string
	typ    types.Type // nil for ghost with pure sort
	sort   Sort
	ghost  bool
	embStruct bool // field is a struct stored inline (addressed via emb function)
}

// state maps heap components to their current array term.
type state struct {
	m     map[string]Term
	alloc Term // allocation counter
	// lazy join: components not mentioned in m take, under cond[i], the value they have in from[i]
	lazyFrom []*state
	lazyCond []Term
}

func (s *state) clone() *state {
	n := &state{m: make(map[string]Term, len(s.m)), alloc: s.alloc, lazyFrom: s.lazyFrom, lazyCond: s.lazyCond}
	for k, v := range s.m {
		n.m[k] = v
	}
	return n
}

// LValue is a statically resolved address.
type LValue struct {
	kind  int // 0 box(ref), 1 field(obj), 2 elem(base, idx), 3 global scalar
	ref   Term
	idx   Term
	owner *structInfo // for field
	field int
	typ   types.Type // type of the location's value (before path)
	path  []pathStep // record projections below the location
}
type pathStep struct {
	si    *structInfo
	field int
}

func (e *fnEnc) fail(f string, a ...any) {
	panic(outOfSubset{fmt.Sprintf(f, a...)})
}

func (e *fnEnc) newName(base string) string {
	e.fresh++
	return fmt.Sprintf("%s!%d", base, e.fresh)
}

func (e *fnEnc) declare(name string, s Sort) Term {
	nm := sym(name)
	if !e.declSeen[nm] {
		e.declSeen[nm] = true
		e.needSort(s)
		e.decls = append(e.decls, fmt.Sprintf("(declare-fun %s () %s)", nm, s))
	}
	return Term{nm, s}
}

func (e *fnEnc) declareFun(name string, args []Sort, ret Sort) string {
	nm := sym(name)
	if !e.declSeen[nm] {
		e.declSeen[nm] = true
		var as []string
		for _, a := range args {
			e.needSort(a)
			as = append(as, string(a))
		}
		e.needSort(ret)
		e.decls = append(e.decls, fmt.Sprintf("(declare-fun %s (%s) %s)", nm, strings.Join(as, " "), ret))
	}
	return nm
}

func (e *fnEnc) freshConst(base string, s Sort) Term {
	return e.declare(e.newName(base), s)
}

func (e *fnEnc) assert(t Term) {
	if t.S == "true" {
		return
	}
	e.cons = append(e.cons, t.S)
}

func (e *fnEnc) assume(why string) { e.assumptions[why] = true }

// needSort makes sure the datatype behind a sort is declared.
func (e *fnEnc) needSort(s Sort) {
	if e.sortSeen[s] {
		return
	}
	e.sortSeen[s] = true
	switch s {
	case SStr:
		e.sortDecls = append(e.sortDecls,
			"(declare-datatypes ((Str 0)) (((mk-str (s-arr (Array Int Int)) (s-off Int) (s-len Int)))))",
			// byteAt is a named wrapper of the array read so that quantifier triggers can mention s[k]
			"(declare-fun byteAt (Str Int) Int)",
			"(assert (forall ((s Str) (k Int)) (! (= (byteAt s k) (select (s-arr s) (+ (s-off s) k))) :pattern ((byteAt s k)))))")
	case SAStr:
		e.sortDecls = append(e.sortDecls, "(declare-sort AStr 0)", "(declare-fun alen (AStr) Int)",
			"(assert (forall ((a AStr)) (! (<= 0 (alen a)) :pattern ((alen a)))))")
	case SSlice:
		e.sortDecls = append(e.sortDecls,
			"(declare-datatypes ((Slice 0)) (((mk-slice (sl-base Int) (sl-off Int) (sl-len Int) (sl-cap Int)))))")
	case SIface:
		e.sortDecls = append(e.sortDecls,
			"(declare-datatypes ((Iface 0)) (((mk-iface (if-tag Int) (if-ptr Int)))))")
	default:
		str := string(s)
		if strings.HasPrefix(str, "(Array ") {
			// make sure component sorts are declared
			for _, c := range splitSortArgs(str[len("(Array ") : len(str)-1]) {
				e.needSort(Sort(c))
			}
		} else if strings.HasPrefix(str, "TP_") {
			e.sortDecls = append(e.sortDecls, fmt.Sprintf("(declare-sort %s 0)", str))
		}
	}
}

func splitSortArgs(s string) []string {
	var out []string
	depth := 0
	last := 0
	for i := 0; i < len(s); i++ {
		switch s[i] {
		case '(':
			depth++
		case ')':
			depth--
		case ' ':
			if depth == 0 {
				if i > last {
					out = append(out, s[last:i])
				}
				last = i + 1
			}
		}
	}
	if last < len(s) {
		out = append(out, s[last:])
	}
	return out
}

// ---------- sorts of Go types ----------

func intWidth(b *types.Basic) (w int, signed bool, ok bool) {
	switch b.Kind() {
	case types.Int8:
		return 8, true, true
	case types.Int16:
		return 16, true, true
	case types.Int32, types.UntypedRune:
		return 32, true, true
	case types.Int, types.Int64, types.UntypedInt:
		return 64, true, true
	case types.Uint8:
		return 8, false, true
	case types.Uint16:
		return 16, false, true
	case types.Uint32:
		return 32, false, true
	case types.Uint, types.Uint64, types.Uintptr:
		return 64, false, true
	}
	return 0, false, false
}

func namedName(t types.Type) string {
	switch n := t.(type) {
	case *types.Named:
		if n.Obj().Pkg() != nil {
			return n.Obj().Pkg().Path() + "." + n.Obj().Name()
		}
		return n.Obj().Name()
	case *types.Alias:
		return namedName(types.Unalias(t))
	}
	return ""
}

func (e *fnEnc) isBVType(t types.Type) bool {
	if e.arithBV {
		return true
	}
	if n := namedName(t); n != "" && e.eng.bvTypes[n] {
		return true
	}
	return false
}

func (e *fnEnc) sortOf(t types.Type) Sort {
	t0 := t
	t = types.Unalias(t)
	switch u := t.Underlying().(type) {
	case *types.Basic:
		switch {
		case u.Info()&types.IsBoolean != 0:
			return SBool
		case u.Info()&types.IsInteger != 0:
			if e.isBVType(t0) {
				w, _, _ := intWidth(u)
				return BV(w)
			}
			return SInt
		case u.Info()&types.IsString != 0:
			if e.strAbstract {
				e.needSort(SAStr)
				return SAStr
			}
			e.needSort(SStr)
			return SStr
		case u.Info()&types.IsFloat != 0:
			return SReal
		case u.Kind() == types.UnsafePointer || u.Kind() == types.UntypedNil:
			return SInt
		}
	case *types.Pointer, *types.Map, *types.Chan, *types.Signature:
		return SInt
	case *types.Slice:
		e.needSort(SSlice)
		return SSlice
	case *types.Interface:
		if _, ok := t.(*types.TypeParam); ok {
			s := Sort("TP_" + t.(*types.TypeParam).Obj().Name())
			e.needSort(s)
			return s
		}
		e.needSort(SIface)
		return SIface
	case *types.Struct:
		return e.structOf(t).sort
	case *types.Array:
		return ArrayOf(SInt, e.sortOf(u.Elem()))
	case *types.Tuple:
		e.fail("tuple has no sort")
	}
	e.fail("unsupported type %s", t)
	return ""
}

func shortTypeName(t types.Type) string {
	if n := namedName(t); n != "" {
		parts := strings.Split(n, "/")
		return parts[len(parts)-1]
	}
	return ""
}

func (e *fnEnc) structOf(t types.Type) *structInfo {
	t = types.Unalias(t)
	key := types.TypeString(t, nil)
	if si, ok := e.structs[key]; ok {
		return si
	}
	st, ok := t.Underlying().(*types.Struct)
	if !ok {
		e.fail("not a struct: %s", t)
	}
	nm := shortTypeName(t)
	if nm == "" {
		nm = fmt.Sprintf("anon%d", len(e.structs))
	}
	nm = strings.NewReplacer("[", "_", "]", "_", ",", "_", " ", "", "*", "p", "/", "_").Replace(nm)
	// uniqueness
	base := nm
	for i := 2; ; i++ {
		dup := false
		for _, o := range e.structs {
			if o.name == nm {
				dup = true
			}
		}
		if !dup {
			break
		}
		nm = fmt.Sprintf("%s_%d", base, i)
	}
	si := &structInfo{sort: Sort("S." + nm), name: nm, typ: t, st: st}
	e.structs[key] = si
	for i := 0; i < st.NumFields(); i++ {
		f := st.Field(i)
		fi := fieldInfo{name: f.Name(), typ: f.Type()}
		if fi.name == "_" {
			fi.name = fmt.Sprintf("_blank%d", i)
		}
		if _, isStruct := types.Unalias(f.Type()).Underlying().(*types.Struct); isStruct {
			fi.embStruct = true
		}
		fi.sort = e.fieldSort(f.Type())
		si.fields = append(si.fields, fi)
	}
	for _, g := range e.eng.ghosts[namedName(t)] {
		fi := fieldInfo{name: g.Name, ghost: true}
		if s, ok := e.eng.specTypes[g.T.Text]; ok {
			fi.sort = s
		} else if gt, ok := e.eng.lookupType(e.pkg, g.T.Text); ok {
			fi.typ = gt
			fi.sort = e.sortOf(gt)
		} else {
			e.fail("ghost field %s.%s: unknown type %s", nm, g.Name, g.T.Text)
		}
		si.fields = append(si.fields, fi)
	}
	// declare the record datatype
	var fs []string
	for _, f := range si.fields {
		e.needSort(f.sort)
		fs = append(fs, fmt.Sprintf("(%s %s)", sym(string(si.sort)+"."+f.name), f.sort))
	}
	if len(fs) == 0 {
		fs = append(fs, fmt.Sprintf("(%s Int)", sym(string(si.sort)+".!unit")))
	}
	e.sortSeen[si.sort] = true
	e.sortDecls = append(e.sortDecls, fmt.Sprintf("(declare-datatypes ((%s 0)) (((%s %s))))", sym(string(si.sort)), sym("mk."+string(si.sort)), strings.Join(fs, " ")))
	return si
}

// fieldSort is sortOf with a guard for recursive struct containment through arrays.
func (e *fnEnc) fieldSort(t types.Type) Sort { return e.sortOf(t) }

func (si *structInfo) fieldIndex(name string) int {
	for i, f := range si.fields {
		if f.name == name {
			return i
		}
	}
	return -1
}

func (e *fnEnc) proj(si *structInfo, rec Term, i int) Term {
	return app(si.fields[i].sort, sym(string(si.sort)+"."+si.fields[i].name), rec)
}

func (e *fnEnc) mkRecord(si *structInfo, fs []Term) Term {
	if len(si.fields) == 0 {
		return app(si.sort, sym("mk."+string(si.sort)), intLit(0))
	}
	return app(si.sort, sym("mk."+string(si.sort)), fs...)
}

func (e *fnEnc) recUpdate(si *structInfo, rec Term, i int, v Term) Term {
	fs := make([]Term, len(si.fields))
	for j := range si.fields {
		if j == i {
			fs[j] = v
		} else {
			fs[j] = e.proj(si, rec, j)
		}
	}
	return e.mkRecord(si, fs)
}

// ---------- zero values, literals, ranges ----------

func (e *fnEnc) zeroOf(t types.Type) Term {
	s := e.sortOf(t)
	return e.zeroOfSort(s, t)
}

func (e *fnEnc) zeroOfSort(s Sort, t types.Type) Term {
	switch {
	case s == SInt:
		return intLit(0)
	case s == SBool:
		return tFalse
	case s == SReal:
		return T(SReal, "0.0")
	case s.IsBV():
		return bvLit(pow2(0).SetInt64(0), s.BVWidth())
	case s == SStr:
		return e.strLit("")
	case s == SAStr:
		return e.astrLit("")
	case s == SSlice:
		return T(SSlice, "(mk-slice 0 0 0 0)")
	case s == SIface:
		return T(SIface, "(mk-iface 0 0)")
	}
	if t != nil {
		switch u := types.Unalias(t).Underlying().(type) {
		case *types.Struct:
			si := e.structOf(t)
			fs := make([]Term, len(si.fields))
			for i, f := range si.fields {
				fs[i] = e.zeroOfSort(f.sort, f.typ)
			}
			return e.mkRecord(si, fs)
		case *types.Array:
			es := e.sortOf(u.Elem())
			return e.constArray(s, e.zeroOfSort(es, u.Elem()))
		}
	}
	// pure spec sort: unconstrained
	return e.freshConst("zero", s)
}

func (e *fnEnc) strLit(v string) Term {
	if t, ok := e.strLits[v]; ok {
		return t
	}
	arr := e.declare(fmt.Sprintf("strlit.arr.%d", len(e.strLits)), ArrayOf(SInt, SInt))
	for i := 0; i < len(v); i++ {
		e.assertGlobal(eq(sel(arr, intLit(int64(i)), SInt), intLit(int64(v[i]))))
	}
	t := app(SStr, "mk-str", arr, intLit(0), intLit(int64(len(v))))
	e.strLits[v] = t
	return t
}

// assertGlobal adds a fact that is true independent of control flow. It is put
// at the very beginning of the constraint list.
func (e *fnEnc) assertGlobal(t Term) {
	e.decls = append(e.decls, fmt.Sprintf("(assert %s)", t.S))
}

func strArr(s Term) Term { return app(ArrayOf(SInt, SInt), "s-arr", s) }
func strOff(s Term) Term { return app(SInt, "s-off", s) }
func strLen(s Term) Term {
	if s.Sort == SAStr {
		return app(SInt, "alen", s)
	}
	return app(SInt, "s-len", s)
}
func strAt(s, i Term) Term { return app(SInt, "byteAt", s, i) }

func slBase(s Term) Term { return app(SInt, "sl-base", s) }
func slOff(s Term) Term  { return app(SInt, "sl-off", s) }
func slLen(s Term) Term  { return app(SInt, "sl-len", s) }
func slCap(s Term) Term  { return app(SInt, "sl-cap", s) }
func ifTag(s Term) Term  { return app(SInt, "if-tag", s) }
func ifPtr(s Term) Term  { return app(SInt, "if-ptr", s) }

// rangeOf returns the type invariant of a value of Go type t.
func (e *fnEnc) rangeOf(v Term, t types.Type) Term {
	if t == nil {
		return tTrue
	}
	t = types.Unalias(t)
	switch u := t.Underlying().(type) {
	case *types.Basic:
		if u.Info()&types.IsInteger != 0 && v.Sort == SInt {
			w, signed, _ := intWidth(u)
			if signed {
				lo := new(bigInt).Neg(pow2(w - 1))
				hi := new(bigInt).Sub(pow2(w-1), bigOne)
				return and(le(bigLit(lo), v), le(v, bigLit(hi)))
			}
			hi := new(bigInt).Sub(pow2(w), bigOne)
			return and(le(intLit(0), v), le(v, bigLit(hi)))
		}
		if u.Info()&types.IsString != 0 {
			if v.Sort == SStr {
				return and(le(intLit(0), strLen(v)), le(intLit(0), strOff(v)))
			}
			return le(intLit(0), strLen(v))
		}
	case *types.Slice:
		return and(le(intLit(0), slLen(v)), le(slLen(v), slCap(v)), le(intLit(0), slOff(v)), le(intLit(0), slBase(v)),
			imp(eq(slBase(v), intLit(0)), eq(slCap(v), intLit(0))))
	case *types.Struct:
		si := e.structOf(t)
		var cs []Term
		for i, f := range si.fields {
			if f.typ != nil {
				cs = append(cs, e.rangeOf(e.proj(si, v, i), f.typ))
			}
		}
		return and(cs...)
	case *types.Pointer, *types.Map, *types.Chan, *types.Signature:
		return tTrue
	case *types.Interface:
		if v.Sort == SIface {
			return and(le(intLit(0), ifTag(v)), imp(eq(ifTag(v), intLit(0)), eq(ifPtr(v), intLit(0))))
		}
	}
	return tTrue
}

// ---------- heap ----------

func compName(kind string, parts ...string) string {
	return kind + "." + strings.Join(parts, ".")
}

func sortTag(s Sort) string {
	r := strings.NewReplacer("(", "", ")", "", " ", "_")
	return r.Replace(string(s))
}

// heapGet returns the current array for a component, declaring the entry version lazily.
func (e *fnEnc) heapGet(st *state, comp string, s Sort) Term {
	if t, ok := st.m[comp]; ok {
		return t
	}
	return e.heapGetEpoch(st, comp, s)
}

func (e *fnEnc) heapSet(st *state, comp string, v Term) {
	if len(v.S) > 60 {
		// name the new version to keep terms small
		nv := e.freshConst(comp, v.Sort)
		e.assert(eq(nv, v))
		v = nv
	}
	st.m[comp] = v
	e.logMod(comp, v.Sort)
}

func (e *fnEnc) fieldComp(si *structInfo, i int) (string, Sort) {
	return compName("H", si.name, si.fields[i].name), ArrayOf(SInt, si.fields[i].sort)
}

func (e *fnEnc) embFun(si *structInfo, i int) string {
	name := "emb." + si.name + "." + si.fields[i].name
	nm := sym(name)
	if !e.declSeen[nm] {
		e.declareFun(name, []Sort{SInt}, SInt)
		e.declareFun(name+".inv", []Sort{SInt}, SInt)
		e.declareFun("embtag", []Sort{SInt}, SInt)
		e.embIDs[nm] = len(e.embIDs) + 1
	}
	return nm
}

// embApp builds the address of an inline struct field and records the ground
// instance of the injectivity/disjointness facts for it (interior addresses are
// negative, roots positive, nil is 0).
func (e *fnEnc) embApp(si *structInfo, i int, obj Term) Term {
	f := e.embFun(si, i)
	t := app(SInt, f, obj)
	key := "embapp:" + t.S
	if !e.declSeen[key] {
		e.declSeen[key] = true
		inv := sym("emb." + si.name + "." + si.fields[i].name + ".inv")
		rootf := e.declareFun("rootobj", []Sort{SInt}, SInt)
		fact := and(eq(app(SInt, inv, t), obj), eq(app(SInt, "embtag", t), intLit(int64(e.embIDs[f]))), lt(t, intLit(0)),
			eq(app(SInt, rootf, t), ite(lt(intLit(0), obj), obj, app(SInt, rootf, obj))))
		if strings.Contains(obj.S, "q.") || strings.Contains(obj.S, "r.") {
			// argument mentions a bound variable: no ground instance possible
		} else {
			e.assertGlobal(fact)
		}
	}
	return t
}

// loadField reads obj.field where obj is a reference to a struct of type si.
func (e *fnEnc) loadField(st *state, si *structInfo, obj Term, i int) Term {
	f := si.fields[i]
	if f.embStruct {
		sub := e.embApp(si, i, obj)
		return e.loadStruct(st, e.structOf(f.typ), sub)
	}
	comp, s := e.fieldComp(si, i)
	return sel(e.heapGet(st, comp, s), obj, f.sort)
}

func (e *fnEnc) storeField(st *state, si *structInfo, obj Term, i int, v Term) {
	f := si.fields[i]
	if f.embStruct {
		sub := e.embApp(si, i, obj)
		e.storeStruct(st, e.structOf(f.typ), sub, v)
		return
	}
	comp, s := e.fieldComp(si, i)
	e.heapSet(st, comp, store(e.heapGet(st, comp, s), obj, v))
}

func (e *fnEnc) loadStruct(st *state, si *structInfo, obj Term) Term {
	fs := make([]Term, len(si.fields))
	for i := range si.fields {
		fs[i] = e.loadField(st, si, obj, i)
	}
	return e.mkRecord(si, fs)
}

func (e *fnEnc) storeStruct(st *state, si *structInfo, obj Term, rec Term) {
	for i := range si.fields {
		e.storeField(st, si, obj, i, e.proj(si, rec, i))
	}
}

func (e *fnEnc) boxComp(s Sort) (string, Sort) {
	return compName("Box", sortTag(s)), ArrayOf(SInt, s)
}
func (e *fnEnc) elemComp(s Sort) (string, Sort) {
	return compName("Elem", sortTag(s)), ArrayOf(SInt, ArrayOf(SInt, s))
}

// elemCompT keys the element heap by the Go element type: slices of different
// element types cannot alias (no unsafe in the functions under contract).
func (e *fnEnc) elemCompT(t types.Type) (string, Sort) {
	s := e.sortOf(t)
	name := types.TypeString(types.Unalias(t), func(p *types.Package) string { return p.Name() })
	if b, ok := types.Unalias(t).(*types.Basic); ok {
		name = b.Name()
		if name == "byte" {
			name = "uint8"
		}
	}
	name = strings.NewReplacer(" ", "", "*", "p.", "[", "_", "]", "_", "{", "", "}", "", "(", "", ")", "", ",", "_", "/", "_").Replace(name)
	return compName("Elem", name), ArrayOf(SInt, ArrayOf(SInt, s))
}
func (e *fnEnc) mapComps(k, v Sort) (string, Sort, string, Sort) {
	return compName("MapDom", sortTag(k), sortTag(v)), ArrayOf(SInt, ArrayOf(k, SBool)),
		compName("MapVal", sortTag(k), sortTag(v)), ArrayOf(SInt, ArrayOf(k, v))
}

func isStructType(t types.Type) bool {
	_, ok := types.Unalias(t).Underlying().(*types.Struct)
	return ok
}

// loadLV reads through an lvalue.
func (e *fnEnc) loadLV(st *state, lv *LValue) Term {
	var base Term
	switch lv.kind {
	case 0:
		s := e.sortOf(lv.typ)
		comp, cs := e.boxComp(s)
		base = sel(e.heapGet(st, comp, cs), lv.ref, s)
	case 1:
		base = e.loadField(st, lv.owner, lv.ref, lv.field)
	case 2:
		s := e.sortOf(lv.typ)
		comp, cs := e.elemCompT(lv.typ)
		base = sel(sel(e.heapGet(st, comp, cs), lv.ref, ArrayOf(SInt, s)), lv.idx, s)
	}
	for _, p := range lv.path {
		base = e.proj(p.si, base, p.field)
	}
	return base
}

func (e *fnEnc) storeLV(st *state, lv *LValue, v Term) {
	// compute the updated value at the base location
	var upd func(cur Term, path []pathStep) Term
	upd = func(cur Term, path []pathStep) Term {
		if len(path) == 0 {
			return v
		}
		p := path[0]
		return e.recUpdate(p.si, cur, p.field, upd(e.proj(p.si, cur, p.field), path[1:]))
	}
	switch lv.kind {
	case 0:
		s := e.sortOf(lv.typ)
		comp, cs := e.boxComp(s)
		arr := e.heapGet(st, comp, cs)
		nv := upd(sel(arr, lv.ref, s), lv.path)
		e.heapSet(st, comp, store(arr, lv.ref, nv))
	case 1:
		cur := tTrue
		if len(lv.path) > 0 {
			cur = e.loadField(st, lv.owner, lv.ref, lv.field)
		}
		e.storeField(st, lv.owner, lv.ref, lv.field, upd(cur, lv.path))
	case 2:
		s := e.sortOf(lv.typ)
		comp, cs := e.elemCompT(lv.typ)
		arr := e.heapGet(st, comp, cs)
		inner := sel(arr, lv.ref, ArrayOf(SInt, s))
		nv := upd(sel(inner, lv.idx, s), lv.path)
		e.heapSet(st, comp, store(arr, lv.ref, store(inner, lv.idx, nv)))
	}
}

// newRef allocates a fresh reference, distinct from everything that exists.
func (e *fnEnc) newRef(st *state, base string) Term {
	r := e.freshConst(base, SInt)
	e.assert(lt(st.alloc, r))
	st.alloc = r
	return r
}

// ---------- loops / CFG ----------

func (e *fnEnc) analyzeCFG() {
	fn := e.fn
	e.backEdge = map[[2]int]bool{}
	e.loopOf = map[*ssa.BasicBlock]*loopInfo{}
	// back edges: target dominates source
	for _, b := range fn.Blocks {
		for _, s := range b.Succs {
			if s.Dominates(b) {
				e.backEdge[[2]int{b.Index, s.Index}] = true
				li := e.loopOf[s]
				if li == nil {
					li = &loopInfo{header: s, body: map[*ssa.BasicBlock]bool{s: true}}
					e.loopOf[s] = li
					e.loops = append(e.loops, li)
				}
				// natural loop body
				var stack []*ssa.BasicBlock
				if !li.body[b] {
					li.body[b] = true
					stack = append(stack, b)
				}
				for len(stack) > 0 {
					x := stack[len(stack)-1]
					stack = stack[:len(stack)-1]
					for _, p := range x.Preds {
						if !li.body[p] {
							li.body[p] = true
							stack = append(stack, p)
						}
					}
				}
			}
		}
	}
	// loop positions: position of the first instruction with a position in header or its If
	// (accesses to parameters and named results carry the position of their
	// declaration in the signature: positions before the body are ignored)
	bodyStart := token.NoPos
	switch sx := fn.Syntax().(type) {
	case *ast.FuncDecl:
		if sx.Body != nil {
			bodyStart = sx.Body.Lbrace
		}
	case *ast.FuncLit:
		bodyStart = sx.Body.Lbrace
	}
	for _, li := range e.loops {
		li.pos = token.NoPos
		for b := range li.body {
			for _, in := range b.Instrs {
				if p := in.Pos(); p.IsValid() && p >= bodyStart && (li.pos == token.NoPos || p < li.pos) {
					li.pos = p
				}
			}
		}
	}
	sort.Slice(e.loops, func(i, j int) bool {
		if e.loops[i].pos != e.loops[j].pos {
			return e.loops[i].pos < e.loops[j].pos
		}
		return e.loops[i].header.Index < e.loops[j].header.Index
	})
	for i, li := range e.loops {
		li.ord = i
		if os.Getenv("GOVC_DEBUG_LOOPS") != "" {
			fmt.Fprintf(os.Stderr, "loop %d of %s: header block %d at %s\n", i, e.name, li.header.Index, e.eng.prog.Fset.Position(li.pos))
		}
	}
	// topological order ignoring back edges; check reducibility (every retreating edge is a back edge)
	visited := map[*ssa.BasicBlock]int{}
	var post []*ssa.BasicBlock
	var dfs func(b *ssa.BasicBlock)
	dfs = func(b *ssa.BasicBlock) {
		visited[b] = 1
		for _, s := range b.Succs {
			if e.backEdge[[2]int{b.Index, s.Index}] {
				continue
			}
			if visited[s] == 1 {
				e.fail("irreducible control flow")
			}
			if visited[s] == 0 {
				dfs(s)
			}
		}
		visited[b] = 2
		post = append(post, b)
	}
	dfs(fn.Blocks[0])
	if fn.Recover != nil && visited[fn.Recover] == 0 {
		// recover block is only reachable through panics: not modelled
	}
	for i := len(post) - 1; i >= 0; i-- {
		e.order = append(e.order, post[i])
	}
}

type bigInt = big.Int

var bigOne = big.NewInt(1)

// constArray: an array with every element equal to v. Solvers accept
// (as const ...) only with literal values; otherwise a quantified definition is used.
func (e *fnEnc) constArray(s Sort, v Term) Term {
	switch {
	case v.S == "true" || v.S == "false" || v.S == "0.0":
		return app(s, fmt.Sprintf("(as const %s)", s), v)
	case strings.HasPrefix(v.S, "(_ bv"):
		return app(s, fmt.Sprintf("(as const %s)", s), v)
	}
	if _, ok := e.constOfTerm(v); ok {
		return app(s, fmt.Sprintf("(as const %s)", s), v)
	}
	a := e.freshConst("zeroarr", s)
	e.assertGlobal(T(SBool, fmt.Sprintf("(forall ((i Int)) (! (= (select %s i) %s) :pattern ((select %s i))))", a.S, v.S, a.S)))
	return a
}
