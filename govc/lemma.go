package main

import (
	"fmt"
	"go/types"

	"golang.org/x/tools/go/ssa"
)

// LemmaObligations turns spec-level lemmas into obligations (no code involved).
func (eng *Engine) LemmaObligations(names []string) ([]*Obligation, []string) {
	var out []*Obligation
	var errs []string
	for _, n := range names {
		var lem *Lemma
		for _, l := range eng.lemmas {
			if l.Name == n {
				lem = l
			}
		}
		if lem == nil {
			errs = append(errs, "orphan: lemma "+n+" not found")
			continue
		}
		o, err := eng.lemmaObligation(lem)
		if err != nil {
			errs = append(errs, fmt.Sprintf("lemma %s: %v", n, err))
			continue
		}
		out = append(out, o)
	}
	return out, errs
}

func (eng *Engine) newPureEnc(pkg, name string) *fnEnc {
	e := &fnEnc{
		eng: eng, name: name, ctr: &FuncContract{Name: name, Pkg: pkg, Options: map[string]string{}}, pkg: pkg,
		sortSeen: map[Sort]bool{SInt: true, SBool: true, SReal: true}, declSeen: map[string]bool{},
		structs: map[string]*structInfo{},
		vals:    map[ssa.Value]Term{}, lvals: map[ssa.Value]*LValue{}, tuples: map[ssa.Value][]Term{},
		closures: map[ssa.Value]*ssa.MakeClosure{},
		reach:   map[*ssa.BasicBlock]Term{}, outSt: map[*ssa.BasicBlock]*state{}, edge: map[[2]int]Term{},
		oblNames: map[string]int{}, assumptions: map[string]bool{}, strLits: map[string]Term{},
		ghostVars: map[string]Term{}, paramVal: map[string]SVal{}, implFns: map[string]*types.Interface{}, backGoals: map[int][]*backEdgeGoals{}, embIDs: map[string]int{}, invUse: map[string]bool{}, acquired: map[string]*state{}, fieldGuardCount: map[string]int{},
	}
	st := &state{m: map[string]Term{}}
	st.alloc = e.declare("alloc@0", SInt)
	e.entrySt = st
	passOf[e] = &passInfo{pass: 2}
	return e
}

func (eng *Engine) lemmaObligation(lem *Lemma) (o *Obligation, err error) {
	e := eng.newPureEnc(eng.lemmaPkg[lem], "lemma:"+lem.Name)
	defer delete(passOf, e)
	defer func() {
		if r := recover(); r != nil {
			if oo, ok := r.(outOfSubset); ok {
				err = fmt.Errorf("%s", oo.msg)
				return
			}
			panic(r)
		}
	}()
	env := &specEnv{enc: e, vars: map[string]SVal{}, st: e.entrySt, old: e.entrySt, pkg: e.pkg}
	g := e.evalBool(lem.E, env)
	o = &Obligation{Name: "lemma:" + lem.Name, Kind: "lemma", Func: "(spec)", Prefix: len(e.cons), Reach: tTrue, Goal: g, Src: lem.Text, Pos: lem.Line, enc: e}
	e.obls = append(e.obls, o)
	return o, nil
}
