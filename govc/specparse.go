package main

import (
	"fmt"
	"strings"
	"unicode"
)

// ---------- expression AST ----------

type Expr interface{ String() string }

type (
	EIdent struct{ Name string }
	ENum   struct{ Text string } // integer or decimal literal
	EChar  struct{ Val int64 }
	EStr   struct{ Val string }
	EBin   struct {
		Op   string
		L, R Expr
	}
	EUn struct {
		Op string
		X  Expr
	}
	ECall struct {
		Fun  Expr
		Args []Expr
	}
	ESel struct {
		X    Expr
		Name string
	}
	EIndex struct{ X, I Expr }
	ESlice struct{ X, Lo, Hi Expr }
	EQuant struct {
		Forall bool
		Vars   []Binder
		Body   Expr
		Pats   []Expr
		PatGroups [][]Expr
		InStr  Expr // "forall c in s": c ranges over the bytes of s
	}
	EOld  struct{ X Expr }
	ECast struct { // x.(T) — "has dynamic type T" when used as bool is written isType(x, T)
		X Expr
		T TypeExpr
	}
	ETypeArg struct{ T TypeExpr } // a type used as an argument (isType(x, *Num))
)

type Binder struct {
	Name string
	T    TypeExpr
}

// TypeExpr is a textual type: "int", "real", "bool", "string", "*Num", "Op", "pkg.T", "[]T".
type TypeExpr struct{ Text string }

func (e *EIdent) String() string { return e.Name }
func (e *ENum) String() string   { return e.Text }
func (e *EChar) String() string  { return fmt.Sprintf("%q", rune(e.Val)) }
func (e *EStr) String() string   { return fmt.Sprintf("%q", e.Val) }
func (e *EBin) String() string   { return "(" + e.L.String() + " " + e.Op + " " + e.R.String() + ")" }
func (e *EUn) String() string    { return e.Op + e.X.String() }
func (e *ECall) String() string {
	var a []string
	for _, x := range e.Args {
		a = append(a, x.String())
	}
	return e.Fun.String() + "(" + strings.Join(a, ", ") + ")"
}
func (e *ESel) String() string   { return e.X.String() + "." + e.Name }
func (e *EIndex) String() string { return e.X.String() + "[" + e.I.String() + "]" }
func (e *ESlice) String() string {
	lo, hi := "", ""
	if e.Lo != nil {
		lo = e.Lo.String()
	}
	if e.Hi != nil {
		hi = e.Hi.String()
	}
	return e.X.String() + "[" + lo + ":" + hi + "]"
}
func (e *EQuant) String() string {
	q := "exists"
	if e.Forall {
		q = "forall"
	}
	var a []string
	for _, v := range e.Vars {
		a = append(a, v.Name+" "+v.T.Text)
	}
	return "(" + q + " " + strings.Join(a, ", ") + " :: " + e.Body.String() + ")"
}
func (e *EOld) String() string     { return "old(" + e.X.String() + ")" }
func (e *ECast) String() string    { return e.X.String() + ".(" + e.T.Text + ")" }
func (e *ETypeArg) String() string { return e.T.Text }

// ---------- lexer ----------

type tok struct {
	k   string // "id", "num", "char", "str", "op", "eof"
	s   string
	pos int
}

type lexer struct {
	src  string
	toks []tok
	p    int
}

var ops = []string{"<==>", "==>", "&&", "||", "==", "!=", "<=", ">=", "<<", ">>", "&^", "::", "+", "-", "*", "/", "%", "&", "|", "^", "!", "<", ">", "(", ")", "[", "]", "{", "}", ",", ".", ":", "?", ";", "="}

func lex(src string) ([]tok, error) {
	var out []tok
	i := 0
	for i < len(src) {
		c := src[i]
		switch {
		case c == ' ' || c == '\t' || c == '\n' || c == '\r':
			i++
		case c == '/' && i+1 < len(src) && src[i+1] == '/':
			for i < len(src) && src[i] != '\n' {
				i++
			}
		case unicode.IsLetter(rune(c)) || c == '_' || c == '$':
			j := i
			for j < len(src) && (unicode.IsLetter(rune(src[j])) || unicode.IsDigit(rune(src[j])) || src[j] == '_' || src[j] == '$') {
				j++
			}
			out = append(out, tok{"id", src[i:j], i})
			i = j
		case c >= '0' && c <= '9':
			j := i
			if c == '0' && j+1 < len(src) && (src[j+1] == 'x' || src[j+1] == 'X') {
				j += 2
				for j < len(src) && (unicode.IsDigit(rune(src[j])) || strings.ContainsRune("abcdefABCDEF_", rune(src[j]))) {
					j++
				}
			} else {
				for j < len(src) && (src[j] >= '0' && src[j] <= '9' || src[j] == '_') {
					j++
				}
				if j+1 < len(src) && src[j] == '.' && src[j+1] >= '0' && src[j+1] <= '9' {
					j++
					for j < len(src) && src[j] >= '0' && src[j] <= '9' {
						j++
					}
				}
			}
			out = append(out, tok{"num", strings.ReplaceAll(src[i:j], "_", ""), i})
			i = j
		case c == '\'':
			j := i + 1
			var v int64
			if j < len(src) && src[j] == '\\' {
				j++
				if j >= len(src) {
					return nil, fmt.Errorf("bad char literal")
				}
				switch src[j] {
				case 'n':
					v = '\n'
				case 't':
					v = '\t'
				case 'r':
					v = '\r'
				case '\\':
					v = '\\'
				case '\'':
					v = '\''
				case '"':
					v = '"'
				case '0':
					v = 0
				case 'x':
					fmt.Sscanf(src[j+1:j+3], "%x", &v)
					j += 2
				default:
					return nil, fmt.Errorf("bad escape in char literal")
				}
				j++
			} else {
				r := []rune(src[j:])
				v = int64(r[0])
				j += len(string(r[0]))
			}
			if j >= len(src) || src[j] != '\'' {
				return nil, fmt.Errorf("unterminated char literal at %d in %q", i, src)
			}
			out = append(out, tok{"char", fmt.Sprint(v), i})
			i = j + 1
		case c == '"':
			j := i + 1
			var b strings.Builder
			for j < len(src) && src[j] != '"' {
				if src[j] == '\\' && j+1 < len(src) {
					j++
					switch src[j] {
					case 'n':
						b.WriteByte('\n')
					case 't':
						b.WriteByte('\t')
					case 'r':
						b.WriteByte('\r')
					case 'x':
						var v int
						fmt.Sscanf(src[j+1:j+3], "%x", &v)
						b.WriteByte(byte(v))
						j += 2
					default:
						b.WriteByte(src[j])
					}
					j++
					continue
				}
				b.WriteByte(src[j])
				j++
			}
			if j >= len(src) {
				return nil, fmt.Errorf("unterminated string")
			}
			out = append(out, tok{"str", b.String(), i})
			i = j + 1
		default:
			matched := false
			for _, o := range ops {
				if strings.HasPrefix(src[i:], o) {
					out = append(out, tok{"op", o, i})
					i += len(o)
					matched = true
					break
				}
			}
			if !matched {
				return nil, fmt.Errorf("unexpected character %q at %d in %q", c, i, src)
			}
		}
	}
	out = append(out, tok{"eof", "", len(src)})
	return out, nil
}

// ---------- parser ----------

type parser struct {
	toks []tok
	p    int
	src  string
}

func parseExpr(src string) (e Expr, err error) {
	toks, err := lex(src)
	if err != nil {
		return nil, err
	}
	ps := &parser{toks: toks, src: src}
	defer func() {
		if r := recover(); r != nil {
			if pe, ok := r.(parseErr); ok {
				err = fmt.Errorf("%s (in %q)", string(pe), src)
				return
			}
			panic(r)
		}
	}()
	e = ps.expr()
	if ps.cur().k != "eof" {
		ps.fail("unexpected %q", ps.cur().s)
	}
	return e, nil
}

type parseErr string

func (p *parser) fail(f string, a ...any) { panic(parseErr(fmt.Sprintf(f, a...))) }
func (p *parser) cur() tok                { return p.toks[p.p] }
func (p *parser) peek(n int) tok {
	if p.p+n < len(p.toks) {
		return p.toks[p.p+n]
	}
	return p.toks[len(p.toks)-1]
}
func (p *parser) isOp(s string) bool { return p.cur().k == "op" && p.cur().s == s }
func (p *parser) isId(s string) bool { return p.cur().k == "id" && p.cur().s == s }
func (p *parser) accept(s string) bool {
	if p.isOp(s) {
		p.p++
		return true
	}
	return false
}
func (p *parser) expect(s string) {
	if !p.accept(s) {
		p.fail("expected %q, got %q", s, p.cur().s)
	}
}
func (p *parser) ident() string {
	if p.cur().k != "id" {
		p.fail("expected identifier, got %q", p.cur().s)
	}
	s := p.cur().s
	p.p++
	return s
}

func (p *parser) expr() Expr {
	if p.isId("forall") || p.isId("exists") {
		q := &EQuant{Forall: p.cur().s == "forall"}
		p.p++
		for {
			var names []string
			names = append(names, p.ident())
			if len(names) == 1 && p.isId("in") {
				// forall c in s :: body   — c ranges over the bytes of string s
				p.p++
				q.InStr = p.orExpr()
				q.Vars = append(q.Vars, Binder{names[0], TypeExpr{"int"}})
				break
			}
			for p.accept(",") {
				names = append(names, p.ident())
			}
			t := p.typeExpr()
			for _, n := range names {
				q.Vars = append(q.Vars, Binder{n, t})
			}
			if !p.accept(",") {
				break
			}
		}
		p.expect("::")
		for p.isOp("{") {
			// trigger: { e1, e2 } (a multi-pattern); several groups allowed
			p.p++
			var group []Expr
			for !p.isOp("}") {
				group = append(group, p.expr())
				if !p.accept(",") {
					break
				}
			}
			p.expect("}")
			q.PatGroups = append(q.PatGroups, group)
		}
		q.Body = p.expr()
		return q
	}
	return p.iff()
}

// typeExpr parses a Go-ish type: [*]ident[.ident], []T, map[K]V
func (p *parser) typeExpr() TypeExpr {
	var b strings.Builder
	for {
		if p.accept("*") {
			b.WriteString("*")
			continue
		}
		if p.isOp("[") && p.peek(1).k == "op" && p.peek(1).s == "]" {
			p.p += 2
			b.WriteString("[]")
			continue
		}
		break
	}
	b.WriteString(p.ident())
	for p.isOp(".") && p.peek(1).k == "id" {
		p.p++
		b.WriteString("." + p.ident())
	}
	// path-qualified types: a/b/c.T are written with '/' between identifiers
	for p.isOp("/") {
		p.p++
		b.WriteString("/" + p.ident())
		for p.isOp(".") && p.peek(1).k == "id" {
			p.p++
			b.WriteString("." + p.ident())
		}
	}
	return TypeExpr{b.String()}
}

func (p *parser) iff() Expr {
	l := p.implies()
	for p.isOp("<==>") {
		p.p++
		r := p.implies()
		l = &EBin{"<==>", l, r}
	}
	return l
}

func (p *parser) implies() Expr {
	l := p.orExpr()
	if p.isOp("==>") {
		p.p++
		var r Expr
		if p.isId("forall") || p.isId("exists") {
			r = p.expr()
		} else {
			r = p.implies()
		}
		return &EBin{"==>", l, r}
	}
	return l
}

func (p *parser) orExpr() Expr {
	l := p.andExpr()
	for p.isOp("||") {
		p.p++
		if p.isId("forall") || p.isId("exists") {
			l = &EBin{"||", l, p.expr()}
		} else {
			l = &EBin{"||", l, p.andExpr()}
		}
	}
	return l
}

func (p *parser) andExpr() Expr {
	l := p.cmpExpr()
	for p.isOp("&&") {
		p.p++
		var r Expr
		if p.isId("forall") || p.isId("exists") {
			r = p.expr()
		} else {
			r = p.cmpExpr()
		}
		l = &EBin{"&&", l, r}
	}
	return l
}

func (p *parser) cmpExpr() Expr {
	l := p.addExpr()
	for p.cur().k == "op" {
		switch p.cur().s {
		case "==", "!=", "<", "<=", ">", ">=":
			op := p.cur().s
			p.p++
			r := p.addExpr()
			l = &EBin{op, l, r}
			continue
		}
		break
	}
	return l
}

func (p *parser) addExpr() Expr {
	l := p.mulExpr()
	for p.cur().k == "op" {
		switch p.cur().s {
		case "+", "-", "|", "^":
			op := p.cur().s
			p.p++
			l = &EBin{op, l, p.mulExpr()}
			continue
		}
		break
	}
	return l
}

func (p *parser) mulExpr() Expr {
	l := p.unary()
	for p.cur().k == "op" {
		switch p.cur().s {
		case "*", "/", "%", "&", "&^", "<<", ">>":
			op := p.cur().s
			p.p++
			l = &EBin{op, l, p.unary()}
			continue
		}
		break
	}
	return l
}

func (p *parser) unary() Expr {
	if p.cur().k == "op" {
		switch p.cur().s {
		case "!", "-", "^":
			op := p.cur().s
			p.p++
			return &EUn{op, p.unary()}
		}
	}
	return p.postfix()
}

func (p *parser) postfix() Expr {
	x := p.primary()
	for {
		switch {
		case p.isOp("."):
			p.p++
			if p.accept("(") {
				t := p.typeExpr()
				p.expect(")")
				x = &ECast{x, t}
			} else {
				x = &ESel{x, p.ident()}
			}
		case p.isOp("["):
			p.p++
			var lo, hi Expr
			if p.isOp(":") {
				p.p++
				if !p.isOp("]") {
					hi = p.expr()
				}
				p.expect("]")
				x = &ESlice{x, nil, hi}
				continue
			}
			lo = p.expr()
			if p.accept(":") {
				if !p.isOp("]") {
					hi = p.expr()
				}
				p.expect("]")
				x = &ESlice{x, lo, hi}
				continue
			}
			p.expect("]")
			x = &EIndex{x, lo}
		case p.isOp("("):
			p.p++
			var args []Expr
			for !p.isOp(")") {
				if p.isOp("*") || (p.isOp("[") && p.peek(1).s == "]") {
					args = append(args, &ETypeArg{p.typeExpr()})
				} else {
					args = append(args, p.expr())
				}
				if !p.accept(",") {
					break
				}
			}
			p.expect(")")
			x = &ECall{x, args}
		default:
			return x
		}
	}
}

func (p *parser) primary() Expr {
	t := p.cur()
	switch t.k {
	case "id":
		p.p++
		if t.s == "old" && p.isOp("(") {
			p.p++
			e := p.expr()
			p.expect(")")
			return &EOld{e}
		}
		return &EIdent{t.s}
	case "num":
		p.p++
		return &ENum{t.s}
	case "char":
		p.p++
		var v int64
		fmt.Sscan(t.s, &v)
		return &EChar{v}
	case "str":
		p.p++
		return &EStr{t.s}
	case "op":
		if t.s == "(" {
			p.p++
			e := p.expr()
			p.expect(")")
			return e
		}
	}
	p.fail("unexpected %q", t.s)
	return nil
}

// ---------- contract files ----------

// Clause is one contract clause attached to a function.
type Clause struct {
	Kind string // requires, ensures, assigns, invariant, decreases, unroll, ...
	Loop int    // for loop clauses
	Text string
	E    Expr
	Name string // optional label "ensures [name] expr"
	Line string // origin (file:line) for messages
}

type SpecFunc struct {
	Name   string
	Params []Binder
	Ret    TypeExpr
	Body   Expr // nil => uninterpreted
	Line   string
	Opaque bool // body is hidden unless the contract says `reveal <name>`
}

type GhostField struct {
	Type  string // type text e.g. "apd.Decimal" or full path
	Name  string
	T     TypeExpr
	Line  string
}

type Lemma struct {
	Name string
	E    Expr
	Text string
	Line string
}

type FuncContract struct {
	Name      string // as written: "SimplifyBounds", "(*File).Offset", "pkg/path.(*T).M", "Outer$1"
	Pkg       string // package path the contract file belongs to (default for unqualified names)
	Clauses   []*Clause
	Options   map[string]string // arith, strings, may_panic, trusted, check
	Line      string
	Assumed   bool // contract is assumed (A-int / A-ext), body not verified
	AssumeWhy string
}

func (c *FuncContract) Get(kind string) []*Clause {
	var out []*Clause
	for _, cl := range c.Clauses {
		if cl.Kind == kind {
			out = append(out, cl)
		}
	}
	return out
}

type ContractFile struct {
	Pkg       string
	Path      string
	Funcs     []*FuncContract
	SpecFuncs []*SpecFunc
	Axioms    []*Lemma
	Lemmas    []*Lemma
	Invs      []*Lemma
	Monitors  []*Monitor
	GhostVars []Binder
	SMT       []string // raw prelude lines
	SpecTypes map[string]string
	Ghosts    []*GhostField
	BVTypes   []string
	Consts    map[string]string
}

var clauseKeywords = map[string]bool{
	"requires": true, "ensures": true, "ensures_assumed": true, "assigns": true, "loop": true, "arith": true, "strings": true,
	"may_panic": true, "check": true, "assumed": true, "effect": true, "ghostparam": true, "nocheck": true,
	"pure": true, "inline": true, "reveal": true, "always": true, "recv_assigns": true, "recv_ensures": true, "requires_lock": true, "bind": true, "let": true, "mode": true, "callsite": true, "unrollall": true, "fresh": true,
}
var topKeywords = map[string]bool{
	"func": true, "spec": true, "axiom": true, "lemma": true, "invariant": true, "monitor": true, "smt": true, "ghost": true, "bvtype": true, "bvtypes": true, "const": true,
}

// Monitor: package-level state guarded by a mutex.
//
//	monitor <mutex> guards g1, g2 invariant <expr> [rely <two-state expr>]
type Monitor struct {
	Mutex  string
	Guards []string
	Inv    Expr
	InvTxt string
	Rely   Expr // two-state: old(...) is the state when the lock was last released/observed
	RelyTxt string
	Line   string
	Pkg    string
}

// parseContractLines parses the //@-stripped lines of one contract file.
func parseContractLines(pkg, path string, lines []string, linenos []int) (*ContractFile, error) {
	cf := &ContractFile{Pkg: pkg, Path: path, SpecTypes: map[string]string{}, Consts: map[string]string{}}
	// join continuation lines: a line whose first word is not a keyword continues the previous one.
	type stmt struct {
		text string
		line int
	}
	var stmts []stmt
	for i, l := range lines {
		trim := strings.TrimSpace(l)
		if trim == "" || strings.HasPrefix(trim, "//") {
			continue
		}
		// strip trailing comment
		if k := strings.Index(trim, " // "); k >= 0 && !strings.Contains(trim[:k], "\"") {
			trim = strings.TrimSpace(trim[:k])
		}
		w := firstWord(trim)
		if topKeywords[w] || clauseKeywords[w] {
			stmts = append(stmts, stmt{trim, linenos[i]})
		} else {
			if len(stmts) == 0 {
				return nil, fmt.Errorf("%s:%d: continuation without statement", path, linenos[i])
			}
			stmts[len(stmts)-1].text += " " + trim
		}
	}
	var cur *FuncContract
	for _, s := range stmts {
		w := firstWord(s.text)
		rest := strings.TrimSpace(s.text[len(w):])
		where := fmt.Sprintf("%s:%d", path, s.line)
		fail := func(err error) error { return fmt.Errorf("%s: %v", where, err) }
		switch {
		case w == "func":
			cur = &FuncContract{Name: rest, Pkg: pkg, Options: map[string]string{}, Line: where}
			cf.Funcs = append(cf.Funcs, cur)
		case w == "smt":
			cf.SMT = append(cf.SMT, rest)
			cur = nil
		case w == "bvtype" || w == "bvtypes":
			cf.BVTypes = append(cf.BVTypes, strings.Fields(rest)...)
			cur = nil
		case w == "const":
			// const NAME = expr (spec-level constant)
			k := strings.Index(rest, "=")
			if k < 0 {
				return nil, fail(fmt.Errorf("const needs ="))
			}
			cf.Consts[strings.TrimSpace(rest[:k])] = strings.TrimSpace(rest[k+1:])
			cur = nil
		case w == "ghost" && strings.HasPrefix(rest, "var "):
			// ghost var name type   (package-level ghost state)
			f := strings.Fields(rest)
			if len(f) != 3 {
				return nil, fail(fmt.Errorf("ghost var <name> <type>"))
			}
			cf.GhostVars = append(cf.GhostVars, Binder{f[1], TypeExpr{f[2]}})
			cur = nil
		case w == "ghost":
			// ghost field T.name type
			f := strings.Fields(rest)
			if len(f) != 3 || f[0] != "field" {
				return nil, fail(fmt.Errorf("ghost field <Type>.<name> <type>"))
			}
			k := strings.LastIndex(f[1], ".")
			cf.Ghosts = append(cf.Ghosts, &GhostField{Type: f[1][:k], Name: f[1][k+1:], T: TypeExpr{f[2]}, Line: where})
			cur = nil
		case w == "spec":
			cur = nil
			f2 := firstWord(rest)
			rest2 := strings.TrimSpace(rest[len(f2):])
			switch f2 {
			case "type":
				// spec type Name = <smt sort>
				k := strings.Index(rest2, "=")
				if k < 0 {
					cf.SpecTypes[strings.TrimSpace(rest2)] = strings.TrimSpace(rest2)
				} else {
					cf.SpecTypes[strings.TrimSpace(rest2[:k])] = strings.TrimSpace(rest2[k+1:])
				}
			case "func":
				opaque := false
				if strings.HasPrefix(rest2, "opaque ") {
					opaque = true
					rest2 = strings.TrimSpace(rest2[len("opaque "):])
				}
				sf, err := parseSpecFunc(rest2)
				if sf != nil {
					sf.Opaque = opaque
				}
				if err != nil {
					return nil, fail(err)
				}
				sf.Line = where
				cf.SpecFuncs = append(cf.SpecFuncs, sf)
			default:
				return nil, fail(fmt.Errorf("spec type|func expected"))
			}
		case w == "monitor":
			cur = nil
			// monitor M guards a, b invariant E [rely R]
			gi := strings.Index(rest, " guards ")
			ii := strings.Index(rest, " invariant ")
			if gi < 0 || ii < 0 {
				return nil, fail(fmt.Errorf("monitor M guards a, b invariant E [rely R]"))
			}
			m := &Monitor{Mutex: strings.TrimSpace(rest[:gi]), Line: where, Pkg: pkg}
			for _, g := range strings.Split(rest[gi+len(" guards "):ii], ",") {
				m.Guards = append(m.Guards, strings.TrimSpace(g))
			}
			invTxt := rest[ii+len(" invariant "):]
			if ri := strings.Index(invTxt, " rely "); ri >= 0 {
				m.RelyTxt = strings.TrimSpace(invTxt[ri+len(" rely "):])
				invTxt = invTxt[:ri]
				e, err := parseExpr(m.RelyTxt)
				if err != nil {
					return nil, fail(err)
				}
				m.Rely = e
			}
			m.InvTxt = strings.TrimSpace(invTxt)
			e, err := parseExpr(m.InvTxt)
			if err != nil {
				return nil, fail(err)
			}
			m.Inv = e
			cf.Monitors = append(cf.Monitors, m)
		case w == "axiom" || w == "lemma" || w == "invariant":
			cur = nil
			k := strings.Index(rest, ":")
			if k < 0 {
				return nil, fail(fmt.Errorf("%s name: expr", w))
			}
			e, err := parseExpr(rest[k+1:])
			if err != nil {
				return nil, fail(err)
			}
			l := &Lemma{Name: strings.TrimSpace(rest[:k]), E: e, Text: strings.TrimSpace(rest[k+1:]), Line: where}
			if w == "axiom" {
				cf.Axioms = append(cf.Axioms, l)
			} else if w == "invariant" {
				cf.Invs = append(cf.Invs, l)
			} else {
				cf.Lemmas = append(cf.Lemmas, l)
			}
		default:
			if cur == nil {
				return nil, fail(fmt.Errorf("clause %q outside func", w))
			}
			switch w {
			case "arith", "strings", "check", "nocheck", "mode", "reveal":
				cur.Options[w] = strings.TrimSpace(cur.Options[w] + " " + rest)
			case "may_panic", "pure", "inline", "unrollall":
				cur.Options[w] = "true"
				if rest != "" {
					cur.Options[w] = rest
				}
			case "assumed":
				cur.Assumed = true
				cur.AssumeWhy = rest
			case "requires", "ensures", "ensures_assumed":
				cl := &Clause{Kind: w, Text: rest, Line: where}
				if strings.HasPrefix(rest, "[") {
					k := strings.Index(rest, "]")
					cl.Name = rest[1:k]
					cl.Text = strings.TrimSpace(rest[k+1:])
				}
				e, err := parseExpr(cl.Text)
				if err != nil {
					return nil, fail(err)
				}
				cl.E = e
				cur.Clauses = append(cur.Clauses, cl)
			case "assigns", "fresh":
				for _, part := range splitTop(rest, ',') {
					cur.Clauses = append(cur.Clauses, &Clause{Kind: w, Text: strings.TrimSpace(part), Line: where})
				}
			case "loop":
				// loop K invariant e | loop K decreases e | loop K unroll N | loop K assigns ...
				f := strings.Fields(rest)
				if len(f) < 3 {
					return nil, fail(fmt.Errorf("loop K kind expr"))
				}
				var k int
				if _, err := fmt.Sscan(f[0], &k); err != nil {
					return nil, fail(err)
				}
				kind := f[1]
				text := strings.TrimSpace(strings.TrimPrefix(strings.TrimSpace(strings.TrimPrefix(rest, f[0])), kind))
				cl := &Clause{Kind: "loop-" + kind, Loop: k, Text: text, Line: where}
				if kind == "invariant" || kind == "decreases" || kind == "assume" {
					if strings.HasPrefix(text, "[") {
						j := strings.Index(text, "]")
						cl.Name = text[1:j]
						cl.Text = strings.TrimSpace(text[j+1:])
					}
					e, err := parseExpr(cl.Text)
					if err != nil {
						return nil, fail(err)
					}
					cl.E = e
				}
				cur.Clauses = append(cur.Clauses, cl)
			case "always":
				e, err := parseExpr(rest)
				if err != nil {
					return nil, fail(err)
				}
				cur.Clauses = append(cur.Clauses, &Clause{Kind: w, Text: rest, E: e, Line: where})
			case "requires_lock":
				cur.Clauses = append(cur.Clauses, &Clause{Kind: w, Text: rest, Line: where})
			case "recv_assigns":
				for _, part := range splitTop(rest, ',') {
					cur.Clauses = append(cur.Clauses, &Clause{Kind: w, Text: strings.TrimSpace(part), Line: where})
				}
			case "recv_ensures":
				e, err := parseExpr(rest)
				if err != nil {
					return nil, fail(err)
				}
				cur.Clauses = append(cur.Clauses, &Clause{Kind: w, Text: rest, E: e, Line: where})
			case "effect", "ghostparam", "bind", "let", "callsite":
				cur.Clauses = append(cur.Clauses, &Clause{Kind: w, Text: rest, Line: where})
			default:
				return nil, fail(fmt.Errorf("unknown clause %q", w))
			}
		}
	}
	return cf, nil
}

func firstWord(s string) string {
	for i, c := range s {
		if c == ' ' || c == '\t' {
			return s[:i]
		}
	}
	return s
}

// splitTop splits on sep outside brackets.
func splitTop(s string, sep byte) []string {
	var out []string
	depth := 0
	last := 0
	for i := 0; i < len(s); i++ {
		switch s[i] {
		case '(', '[', '{':
			depth++
		case ')', ']', '}':
			depth--
		default:
			if s[i] == sep && depth == 0 {
				out = append(out, s[last:i])
				last = i + 1
			}
		}
	}
	if strings.TrimSpace(s[last:]) != "" {
		out = append(out, s[last:])
	}
	return out
}

// parseSpecFunc parses: name(a T, b, c U) R [{ expr }]
func parseSpecFunc(s string) (*SpecFunc, error) {
	body := ""
	if k := strings.Index(s, "{"); k >= 0 {
		j := strings.LastIndex(s, "}")
		if j < k {
			return nil, fmt.Errorf("unbalanced braces in spec func")
		}
		body = s[k+1 : j]
		s = strings.TrimSpace(s[:k])
	}
	toks, err := lex(s)
	if err != nil {
		return nil, err
	}
	p := &parser{toks: toks, src: s}
	sf := &SpecFunc{}
	var perr error
	func() {
		defer func() {
			if r := recover(); r != nil {
				if pe, ok := r.(parseErr); ok {
					perr = fmt.Errorf("%s (in %q)", string(pe), s)
					return
				}
				panic(r)
			}
		}()
		sf.Name = p.ident()
		p.expect("(")
		for !p.isOp(")") {
			var names []string
			names = append(names, p.ident())
			for p.accept(",") {
				names = append(names, p.ident())
			}
			t := p.typeExpr()
			for _, n := range names {
				sf.Params = append(sf.Params, Binder{n, t})
			}
			if !p.accept(",") {
				break
			}
		}
		p.expect(")")
		sf.Ret = p.typeExpr()
	}()
	if perr != nil {
		return nil, perr
	}
	if body != "" {
		e, err := parseExpr(body)
		if err != nil {
			return nil, err
		}
		sf.Body = e
	}
	return sf, nil
}
