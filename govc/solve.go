package main

import (
	"bytes"
	"context"
	"fmt"
	"go/types"
	"os"
	"os/exec"
	"path/filepath"
	"sort"
	"strings"
	"sync"
	"sync/atomic"
	"time"
)

// Script renders the SMT-LIB query of an obligation.
func (o *Obligation) Script(withModel bool) string {
	e := o.enc
	var b strings.Builder
	b.WriteString("(set-option :produce-models true)\n(set-logic ALL)\n")
	fmt.Fprintf(&b, "; obligation %s\n; %s\n", o.Name, strings.ReplaceAll(o.Src, "\n", " "))
	for _, d := range e.sortDecls {
		b.WriteString(d + "\n")
	}
	for _, d := range e.eng.rawSMT {
		b.WriteString(d + "\n")
	}
	for _, d := range e.decls {
		if (o.Cover || o.NoAxioms) && strings.HasPrefix(d, "(assert (forall") {
			// reachability covers are run without the quantified background axioms
			// (order/injectivity axioms): solvers rarely return sat in their presence
			continue
		}
		b.WriteString(d + "\n")
	}
	// implements facts
	var fns []string
	for f := range e.implFns {
		fns = append(fns, f)
	}
	sort.Strings(fns)
	for _, f := range fns {
		it := e.implFns[f]
		for id := 1; id < len(e.eng.typeByID); id++ {
			t := e.eng.typeByID[id]
			v := types.Implements(t, it)
			fmt.Fprintf(&b, "(assert (= (%s %d) %v))\n", f, id, v)
		}
	}
	for i := 0; i < o.Prefix && i < len(e.cons); i++ {
		b.WriteString("(assert " + e.cons[i] + ")\n")
	}
	for _, x := range o.Extra {
		b.WriteString("(assert " + x + ")\n")
	}
	if o.Cover {
		b.WriteString("(assert " + o.Reach.S + ")\n")
	} else {
		b.WriteString("(assert " + o.Reach.S + ")\n")
		b.WriteString("(assert (not " + o.Goal.S + "))\n")
	}
	b.WriteString("(check-sat)\n")
	if withModel {
		b.WriteString("(get-model)\n")
	}
	return b.String()
}

type SolveResult struct {
	Status  string // unsat, sat, unknown, timeout, error
	Backend string
	Seconds float64
	Model   string
	Output  string
	All     map[string]string // backend -> status
	CandidateModel bool // model obtained with the quantified background axioms dropped
}

type solverSpec struct {
	name string
	args func(file string, timeout time.Duration) []string
}

// The time limit of a query is CPU time of the solver process, not wall-clock
// time: on a loaded machine (other checks, test suites running beside this one)
// a query that needs 2 s of computation can take a minute of wall-clock time,
// and a wall-clock limit would turn machine load into "timeout", i.e. into an
// alarm. The solvers' own (wall-clock) limits are set to the wall cap only.
const wallCapFactor = 12

var solvers = []solverSpec{
	{"z3-5.1.0", func(f string, t time.Duration) []string {
		return []string{"z3-new", "-smt2", fmt.Sprintf("-T:%d", int(t.Seconds())*wallCapFactor+5), f}
	}},
	{"z3-4.8.12", func(f string, t time.Duration) []string {
		return []string{"z3", "-smt2", fmt.Sprintf("-T:%d", int(t.Seconds())*wallCapFactor+5), f}
	}},
	{"cvc5-1.0", func(f string, t time.Duration) []string {
		return []string{"cvc5", fmt.Sprintf("--tlimit=%d", t.Milliseconds()*wallCapFactor+5000), f}
	}},
}

// cpuSeconds of a running process (user + system), from /proc/<pid>/stat.
func cpuSeconds(pid int) (float64, bool) {
	data, err := os.ReadFile(fmt.Sprintf("/proc/%d/stat", pid))
	if err != nil {
		return 0, false
	}
	// the command name (field 2) is parenthesised and may contain spaces
	k := bytes.LastIndexByte(data, ')')
	if k < 0 {
		return 0, false
	}
	f := strings.Fields(string(data[k+1:]))
	if len(f) < 13 {
		return 0, false
	}
	var ut, stt float64
	fmt.Sscan(f[11], &ut) // utime: field 14 overall
	fmt.Sscan(f[12], &stt)
	return (ut + stt) / 100.0, true // USER_HZ is 100 on Linux
}

func runSolver(ctx context.Context, sp solverSpec, file string, timeout time.Duration) (status, out string) {
	args := sp.args(file, timeout)
	cctx, cancel := context.WithTimeout(ctx, timeout*wallCapFactor+8*time.Second)
	defer cancel()
	cmd := exec.CommandContext(cctx, args[0], args[1:]...)
	var buf bytes.Buffer
	cmd.Stdout = &buf
	cmd.Stderr = &buf
	var cpuOut atomic.Bool
	if err := cmd.Start(); err == nil {
		done := make(chan struct{})
		go func() {
			tk := time.NewTicker(100 * time.Millisecond)
			defer tk.Stop()
			for {
				select {
				case <-done:
					return
				case <-tk.C:
					if c, ok := cpuSeconds(cmd.Process.Pid); ok && c > timeout.Seconds() {
						cpuOut.Store(true)
						cmd.Process.Kill()
						return
					}
				}
			}
		}()
		_ = cmd.Wait()
		close(done)
	}
	if cpuOut.Load() {
		return "timeout", buf.String()
	}
	out = buf.String()
	first := strings.TrimSpace(strings.SplitN(out, "\n", 2)[0])
	switch first {
	case "unsat", "sat", "unknown":
		return first, out
	case "timeout":
		return "timeout", out
	}
	if cctx.Err() != nil {
		return "timeout", out
	}
	if strings.Contains(out, "interrupted by timeout") || strings.Contains(out, "cvc5 interrupted by timeout") {
		return "timeout", out
	}
	return "error", out
}

// Solve races the solvers on one script; the first definite answer wins.
func Solve(script string, dir, name string, timeout time.Duration, which []string) SolveResult {
	os.MkdirAll(dir, 0o755)
	file := filepath.Join(dir, sanitizeFile(name)+".smt2")
	os.WriteFile(file, []byte(script), 0o644)
	ctx, cancel := context.WithCancel(context.Background())
	defer cancel()
	type ans struct {
		backend, status, out string
		secs                 float64
	}
	var use []solverSpec
	for _, s := range solvers {
		if len(which) == 0 {
			use = append(use, s)
			continue
		}
		for _, w := range which {
			if strings.HasPrefix(s.name, w) {
				use = append(use, s)
			}
		}
	}
	ch := make(chan ans, len(use))
	start := time.Now()
	for _, sp := range use {
		go func(sp solverSpec) {
			st, out := runSolver(ctx, sp, file, timeout)
			ch <- ans{sp.name, st, out, time.Since(start).Seconds()}
		}(sp)
	}
	res := SolveResult{Status: "unknown", All: map[string]string{}}
	for i := 0; i < len(use); i++ {
		a := <-ch
		res.All[a.backend] = a.status
		if a.status == "unsat" || a.status == "sat" {
			res.Status, res.Backend, res.Seconds, res.Output = a.status, a.backend, a.secs, a.out
			if a.status == "sat" {
				if k := strings.Index(a.out, "\n"); k >= 0 {
					res.Model = a.out[k+1:]
				}
			}
			cancel()
			return res
		}
		if a.status == "error" && res.Output == "" {
			res.Output = a.out
		}
		if a.status == "timeout" && res.Status == "unknown" {
			res.Status = "timeout"
		}
	}
	res.Seconds = time.Since(start).Seconds()
	allErr := true
	for _, s := range res.All {
		if s != "error" {
			allErr = false
		}
	}
	if allErr {
		res.Status = "error"
	}
	return res
}

func sanitizeFile(s string) string {
	r := strings.NewReplacer("/", "_", " ", "_", "(", "", ")", "", "*", "p", "#", "-", ":", "-", "[", "", "]", "", "$", "S", "\"", "", "'", "", "<", "lt", ">", "gt", "&", "and", "|", "or", "~", "-", ",", "_", "=", "eq", "!", "not")
	out := r.Replace(s)
	if len(out) > 150 {
		out = out[:150]
	}
	return out
}

// SolveAll discharges obligations in parallel.
func SolveAll(obls []*Obligation, dir string, timeout time.Duration, par int, withCex bool) map[*Obligation]SolveResult {
	out := map[*Obligation]SolveResult{}
	var mu sync.Mutex
	sem := make(chan struct{}, par)
	var wg sync.WaitGroup
	for _, o := range obls {
		wg.Add(1)
		sem <- struct{}{}
		go func(o *Obligation) {
			defer wg.Done()
			defer func() { <-sem }()
			var r SolveResult
			// counterexample search (retry rounds only, in parallel with the query):
			// without the quantified background axioms the solvers can return a
			// (candidate) model, which replay then validates
			var r2 SolveResult
			cexDone := make(chan struct{})
			if !o.Cover && withCex {
				go func() {
					o2 := *o
					o2.NoAxioms = true
					r2 = Solve(o2.Script(true), dir, o.Name+".cex", timeout, nil)
					close(cexDone)
				}()
			} else {
				close(cexDone)
			}
			if len(o.Cases) > 0 && !o.Cover {
				r = solveCases(o, dir, timeout)
			} else {
				r = Solve(o.Script(true), dir, o.Name, timeout, nil)
			}
			<-cexDone
			if !o.Cover && r.Status != "unsat" && r.Status != "sat" && r.Status != "error" && r2.Status == "sat" {
				r.Model = r2.Model
				r.CandidateModel = true
				r.Backend = r2.Backend
			}
			mu.Lock()
			out[o] = r
			mu.Unlock()
		}(o)
	}
	wg.Wait()
	return out
}

// solveCases discharges an obligation case by case (e.g. one query per return
// point): unsat iff every case is unsat; the first failing case is reported.
func solveCases(o *Obligation, dir string, timeout time.Duration) SolveResult {
	agg := SolveResult{Status: "unsat", All: map[string]string{}}
	for i, c := range o.Cases {
		o2 := *o
		o2.Cases = nil
		o2.Extra = append(append([]string{}, o.Extra...), c)
		r := Solve(o2.Script(true), dir, fmt.Sprintf("%s.case%d", o.Name, i), timeout, nil)
		agg.Seconds += r.Seconds
		if r.Backend != "" {
			agg.Backend = r.Backend
		}
		if r.Status != "unsat" {
			r.Seconds = agg.Seconds
			r.Output = fmt.Sprintf("case %d (%s): %s", i, c, r.Output)
			return r
		}
	}
	return agg
}
