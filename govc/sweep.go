package main

import (
	"flag"
	"fmt"
	"os"
	"regexp"
	"sort"
	"strings"
	"time"

	"golang.org/x/tools/go/ssa"
)

// sweepCmd is a development aid: it encodes every function of the given
// packages whose source file matches -files without a contract and reports
// which safety obligations (index/slice bounds, division, nil map, explicit
// panic, callee preconditions) discharge. Functions with at least one such
// obligation are candidates for the "sweep" list of a property.
func sweepCmd(args []string) {
	fs := flag.NewFlagSet("sweep", flag.ExitOnError)
	pkgs := fs.String("pkgs", "", "comma separated package patterns")
	files := fs.String("files", ".", "regexp on the file name of the function")
	specs := fs.String("specs", "", "extra spec files")
	out := fs.String("out", "/tmp/govc_sweep", "output dir")
	timeout := fs.Duration("timeout", 10*time.Second, "solver timeout")
	repoDir := fs.String("repo", "/repo", "repository root")
	fs.Parse(args)
	re := regexp.MustCompile(*files)
	eng := NewEngine(*repoDir)
	if err := eng.Load(strings.Split(*pkgs, ",")); err != nil {
		fmt.Println("load:", err)
		os.Exit(2)
	}
	var sf []string
	if *specs != "" {
		sf = strings.Split(*specs, ",")
	}
	if err := eng.LoadContracts(sf); err != nil {
		fmt.Println("contracts:", err)
		os.Exit(2)
	}
	var names []string
	for n, f := range eng.funcs {
		if f.Pkg == nil || f.Synthetic != "" {
			continue
		}
		inPkgs := false
		for _, p := range strings.Split(*pkgs, ",") {
			if f.Pkg.Pkg.Path() == p {
				inPkgs = true
			}
		}
		if !inPkgs || !re.MatchString(eng.prog.Fset.Position(f.Pos()).Filename) {
			continue
		}
		if c := eng.contracts[n]; c != nil && !c.Assumed {
			continue // already under contract
		}
		interesting := false
		for _, b := range f.Blocks {
			for _, in := range b.Instrs {
				switch x := in.(type) {
				case *ssa.IndexAddr, *ssa.Index, *ssa.Slice, *ssa.Panic:
					interesting = true
				case *ssa.BinOp:
					if x.Op.String() == "/" || x.Op.String() == "%" {
						interesting = true
					}
				}
			}
		}
		if interesting {
			names = append(names, n)
		}
	}
	sort.Strings(names)
	for _, n := range names {
		enc, err := eng.EncodeFunc(n)
		if err != nil {
			fmt.Printf("SKIP %s: %v\n", n, err)
			continue
		}
		obls := safetyOnly(enc.obls)
		if len(obls) == 0 {
			continue
		}
		res := SolveAll(obls, *out, *timeout, 8, false)
		ok := 0
		var lines []string
		for _, o := range obls {
			r := res[o]
			if r.Status == "unsat" {
				ok++
			}
			lines = append(lines, fmt.Sprintf("    %-8s %s (%s)", r.Status, o.Name, o.Pos))
		}
		fmt.Printf("FUNC %s: %d/%d safety obligations discharged\n%s\n", n, ok, len(obls), strings.Join(lines, "\n"))
	}
}
